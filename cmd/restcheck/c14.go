package main

import (
	"go/token"
	"go/types"
	"sort"
	"strings"

	"golang.org/x/tools/go/ssa"
)

// C14 — a trailing slash on the request path changes nothing under the default path strategy.
//
// The law itself relates the outcomes of two requests on every table; what is decided here are four mechanisms each
// of which is a necessary condition of it (DESIGN §5 C14): the request path is cut into tokens only after its trailing
// slash is gone, the strategy switch that allows otherwise is off by default and the module never flips it, a
// regexp-based acceptance that looks at the final group admits "/" wherever it admits "", and a WebService pattern is
// registered on the mux together with its slash-terminated twin.

const strategySwitch = "TrimRightSlashEnabled"

func init() {
	register(&Property{
		ID:    "C14",
		Title: "By default a trailing slash on the request path changes nothing",
		Decided: "C14.a every cut of the request's URL path at '/' on the request path (strings.Split family, strings.Cut, strings.FieldsFunc) is applied to a value whose trailing slash was removed (strings.Trim/TrimRight with a cutset containing '/', TrimSuffix \"/\", path.Clean), unless the cut is controlled by the false value of the strategy switch; " +
			"C14.b the strategy switch TrimRightSlashEnabled is initialised to the constant true and no function of the module stores to it; " +
			"C14.c every acceptance of a route by the final group of its path expression's match (RouterJSR311.selectRoutes, computeAllowedMethods, any sibling) that admits the empty group also admits \"/\"; " +
			"C14.e the untrimmed request path meets no comparison (other than with the constants \"/\" and \"\"), no prefix/suffix/substring predicate with a non-constant or slash-terminated operand, and is neither stored as a map value or key nor into a field on the request path; " +
			"C14.d every ServeMux registration of a pattern computed from a WebService root is made together with the registration of that pattern followed by '/', for the same handler.",
		NotDecided: "the equivalence itself: that tokens, generated regular expressions, the tail-wildcard join and the parameter binder compute the same outcome for p and p/ on every table (value-level); the join of root and route path at build time (concatPath) is a value computation no structural clause was found for.",
		Rules: []Rule{
			{ID: "C14.a", Template: "T-TOKEN", Required: false, Run: ruleC14a,
				Doc: "The request path loses its trailing slash before it is cut into tokens. A tokenizer that cuts `/p/` as it stands yields a final empty token: the token count no longer matches the template and `/p/` is 404 where `/p` is 200."},
			{ID: "C14.b", Template: "T-OWN", Required: true, Run: ruleC14b,
				Doc: "The default strategy is the trimming one. The switch starts as true and only the user changes it: a library function that turns it off (a constructor, an option) changes the outcome of `/p/` for every container of the process."},
			{ID: "C14.c", Template: "T-ENFORCE", Required: true, Run: ruleC14c,
				Doc: "Path expressions end in an optional `(/.*)?` group; for `/p/` that group is \"/\" where it is empty for `/p`. An acceptance test on the final group that admits only the empty string rejects `/p/`: 404 (or a shorter Allow list) for one of the pair."},
			{ID: "C14.d", Template: "T-SIBLING", Required: true, Run: ruleC14d,
				Doc: "Through ServeHTTP the mux sees the path first. A service registered as `/p` only is not reached by `/p/` (mux 404), one registered as `/p/` only answers `/p` with a 301 redirect: pattern and pattern+\"/\" are registered together with the same handler."},
			{ID: "C14.e", Template: "T-NOPARTIAL", Required: false, Run: ruleC14e,
				Doc: "The request path as it arrived - possibly with its trailing slash - is only trimmed, matched by a compiled path expression, logged or passed on. A comparison with another string, a prefix/suffix/substring test against a non-constant or slash-terminated operand, or a piece of it bound as a parameter value gives `/p/` an outcome `/p` does not have."},
		},
	})
}

// ---------------------------------------------------------------------------
// URL-path values: a string loaded from (*net/url.URL).Path, or derived from one through trimming, slicing,
// case conversion, phis and the parameters of module functions (fixpoint over the call graph).

type urlPathInfo struct {
	param map[*ssa.Parameter]bool
	raw   bool // follow only derivations that keep a trailing slash (stop at a right-trim)
}

// removesTrailingSlash: the call returns its first argument without a trailing slash.
func removesTrailingSlash(call *ssa.Call) bool {
	switch calleeName(&call.Call) {
	case "strings.Trim", "strings.TrimRight":
		cs, isC := constStr(call.Call.Args[1])
		return isC && strings.Contains(cs, "/")
	case "strings.TrimSuffix":
		cs, isC := constStr(call.Call.Args[1])
		return isC && cs == "/"
	case "path.Clean":
		return true
	}
	return false
}

func isURLPathLoad(v ssa.Value) bool {
	_, f, ok := fieldLoad(strip(v))
	if !ok || f.Name() != "Path" || f.Pkg() == nil || f.Pkg().Path() != "net/url" {
		return false
	}
	return true
}

var stringPassThrough = map[string]bool{
	"strings.Trim": true, "strings.TrimRight": true, "strings.TrimLeft": true, "strings.TrimPrefix": true, "strings.TrimSuffix": true,
	"strings.TrimSpace": true, "strings.TrimFunc": true, "strings.ToLower": true, "strings.ToUpper": true, "path.Clean": true,
	"strings.Clone": true, "strings.Replace": true, "strings.ReplaceAll": true, "net/url.PathUnescape": true, "net/url.QueryUnescape": true,
}

func (u *urlPathInfo) derives(p *Program, v ssa.Value, seen map[ssa.Value]bool) bool {
	v = strip(v)
	if v == nil || seen[v] {
		return false
	}
	seen[v] = true
	if isURLPathLoad(v) {
		return true
	}
	switch x := v.(type) {
	case *ssa.Parameter:
		return u.param[x]
	case *ssa.Phi:
		for _, e := range x.Edges {
			if u.derives(p, e, seen) {
				return true
			}
		}
	case *ssa.Slice:
		return u.derives(p, x.X, seen)
	case *ssa.BinOp:
		if x.Op == token.ADD {
			return u.derives(p, x.X, seen) || u.derives(p, x.Y, seen)
		}
	case *ssa.Extract:
		return u.derives(p, x.Tuple, seen)
	case *ssa.UnOp:
		if x.Op == token.MUL {
			for _, a := range p.loadOfCell(x) {
				for _, st := range p.cellStores(a) {
					if u.derives(p, st.Val, seen) {
						return true
					}
				}
			}
			// the final group of a match on the path: the remainder, which ends in the slash the path ends in
			if m, ok := lastElementOf(x); ok {
				if call, ok := strip(m).(*ssa.Call); ok && strings.HasPrefix(calleeName(&call.Call), "(*regexp.Regexp).FindStringSubmatch") && len(call.Call.Args) > 1 {
					return u.derives(p, call.Call.Args[1], seen)
				}
			}
			// a string field of a module struct: what is stored into it anywhere
			if _, fld, ok := fieldLoad(x); ok && fld.Pkg() != nil && fld.Pkg().Path() == modulePath && isStringType(fld.Type()) {
				for _, st := range p.storesToField(fld) {
					if u.derives(p, st.Val, seen) {
						return true
					}
				}
			}
		}
	case *ssa.Call:
		if u.raw && removesTrailingSlash(x) {
			return false
		}
		if stringPassThrough[calleeName(&x.Call)] && len(x.Call.Args) > 0 {
			return u.derives(p, x.Call.Args[0], seen)
		}
		if cal := x.Call.StaticCallee(); cal != nil && p.inModule(cal) && cal.Blocks != nil {
			for _, r := range returnsOf(cal) {
				for _, res := range r.Results {
					if isStringType(res.Type()) && u.derives(p, res, seen) {
						return true
					}
				}
			}
		}
	}
	return false
}

func urlPathParams(p *Program, raw bool) *urlPathInfo {
	u := &urlPathInfo{param: map[*ssa.Parameter]bool{}, raw: raw}
	cg := p.callGraph()
	for iter := 0; iter < 10; iter++ {
		changed := false
		for _, fn := range p.SrcFunc {
			for _, e := range cg.Out[fn] {
				cc := callCommon(e.Site)
				if cc == nil || e.Callee == nil || e.Callee.Blocks == nil || !p.inModule(e.Callee) {
					continue
				}
				args := cc.Args
				params := e.Callee.Params
				if cc.IsInvoke() && len(params) == len(args)+1 {
					params = params[1:]
				}
				if len(params) != len(args) {
					continue
				}
				for k, a := range args {
					if !isStringType(a.Type()) || u.param[params[k]] {
						continue
					}
					if u.derives(p, a, map[ssa.Value]bool{}) {
						u.param[params[k]] = true
						changed = true
					}
				}
			}
		}
		if !changed {
			break
		}
	}
	return u
}

// rightTrimmed: every value v can be has lost a trailing slash. why names the first operand that has not.
func rightTrimmed(p *Program, v ssa.Value, depth int, seen map[ssa.Value]bool) (ok bool, why string) {
	v = strip(v)
	if seen[v] {
		return true, ""
	}
	seen[v] = true
	switch x := v.(type) {
	case *ssa.Phi:
		for k, e := range x.Edges {
			if k < len(x.Block().Preds) && edgeSwitchOff(x.Block().Preds[k], x.Block()) {
				continue // this value arrives only under the non-default strategy
			}
			if ok, why := rightTrimmed(p, e, depth, seen); !ok {
				return false, why
			}
		}
		return true, ""
	case *ssa.Call:
		switch calleeName(&x.Call) {
		case "strings.Trim", "strings.TrimRight":
			if cs, isC := constStr(x.Call.Args[1]); isC && strings.Contains(cs, "/") {
				return true, ""
			}
			return false, "trimmed with a cutset that is not a constant containing '/'"
		case "strings.TrimSuffix":
			if cs, isC := constStr(x.Call.Args[1]); isC && cs == "/" {
				return true, ""
			}
			return false, "TrimSuffix of something other than \"/\""
		case "path.Clean":
			return true, ""
		case "strings.TrimLeft", "strings.TrimPrefix", "strings.TrimSpace", "strings.ToLower", "strings.ToUpper":
			return rightTrimmed(p, x.Call.Args[0], depth, seen)
		}
		if cal := x.Call.StaticCallee(); cal != nil && p.inModule(cal) && cal.Blocks != nil && depth < 3 {
			for _, r := range returnsOf(cal) {
				for _, res := range r.Results {
					if !isStringType(res.Type()) {
						continue
					}
					if ok, why := rightTrimmed(p, res, depth+1, map[ssa.Value]bool{}); !ok {
						return false, "result of " + cal.Name() + ": " + why
					}
				}
			}
			return true, ""
		}
	case *ssa.UnOp:
		if x.Op == token.MUL {
			if cells := p.loadOfCell(x); len(cells) > 0 {
				for _, a := range cells {
					for _, st := range p.cellStores(a) {
						if ok, why := rightTrimmed(p, st.Val, depth, seen); !ok {
							return false, why
						}
					}
				}
				return true, ""
			}
		}
	case *ssa.Const:
		if s, isC := constStr(x); isC && !strings.HasSuffix(s, "/") {
			return true, ""
		}
	}
	return false, operandDesc(v) + " still carries the trailing slash"
}

// edgeSwitchOff: control reaches `to` from `from` only with the strategy switch off - a fact of `from`, or the
// edge itself is the false edge of a test of the switch.
func edgeSwitchOff(from, to *ssa.BasicBlock) bool {
	for f := range factsAt(from.Parent())[from] {
		if is, pol := strategyCond(f.Cond); is && pol != f.Pol {
			return true
		}
	}
	if iff, ok := from.Instrs[len(from.Instrs)-1].(*ssa.If); ok && len(from.Succs) == 2 && from.Succs[0] != from.Succs[1] {
		if is, pol := strategyCond(iff.Cond); is {
			taken := from.Succs[0] == to // the condition is true on this edge
			return taken != pol
		}
	}
	return false
}

// strategyCond: cond is a load of the strategy switch, possibly negated.
func strategyCond(v ssa.Value) (is bool, pol bool) {
	if isLoadOfGlobal(v, strategySwitch) {
		return true, true
	}
	if u, ok := v.(*ssa.UnOp); ok && u.Op == token.NOT {
		if t, pl := strategyCond(u.X); t {
			return true, !pl
		}
	}
	if bo, ok := v.(*ssa.BinOp); ok && (bo.Op == token.EQL || bo.Op == token.NEQ) {
		for _, pr := range [][2]ssa.Value{{bo.X, bo.Y}, {bo.Y, bo.X}} {
			if k, isC := constBool(pr[1]); isC {
				if t, pl := strategyCond(pr[0]); t {
					return true, pl == (k == (bo.Op == token.EQL))
				}
			}
		}
	}
	return false, false
}

var slashCutters = map[string]int{ // callee -> index of the separator argument
	"strings.Split": 1, "strings.SplitN": 1, "strings.SplitAfter": 1, "strings.SplitAfterN": 1, "strings.Cut": 1,
	"bytes.Split": 1,
}

func ruleC14a(c *Ctx) {
	p := c.P
	roles := p.Roles()
	up := urlPathParams(p, false)
	n := 0
	for _, fn := range p.SrcFunc {
		if !p.inModule(fn) || fn.Blocks == nil || !roles.RequestPath[fn] {
			continue
		}
		name := p.fname(fn)
		facts := factsAt(fn)
		eachInstr(fn, func(i ssa.Instruction) {
			call, ok := i.(*ssa.Call)
			if !ok {
				return
			}
			cn := calleeName(&call.Call)
			sepIdx, isCut := slashCutters[cn]
			if isCut {
				if sep, isC := constStr(call.Call.Args[sepIdx]); !isC || sep != "/" {
					return
				}
			} else if cn != "strings.FieldsFunc" {
				return
			}
			if !up.derives(p, call.Call.Args[0], map[ssa.Value]bool{}) {
				return
			}
			n++
			construct := "request path cut at '/' by " + shortCallee(&call.Call)
			// the non-default strategy
			for f := range facts[call.Block()] {
				if is, pol := strategyCond(f.Cond); is && pol != f.Pol {
					c.triv(name, construct+" (switch off)", p.ipos(call), "controlled by the false value of "+strategySwitch+": not the default strategy")
					return
				}
			}
			ok2, why := rightTrimmed(p, call.Call.Args[0], 0, map[ssa.Value]bool{})
			c.check(ok2, name, construct, p.ipos(call), "the operand has lost its trailing slash (Trim/TrimRight/TrimSuffix/Clean) on every path to the cut",
				"under the default strategy the path is cut as it stands ("+why+"): `/p/` yields a final empty token where `/p` does not, and the two requests are routed differently")
		})
	}
	if n == 0 {
		c.note("-", "no cut of the request path at '/' on the request path", "-", "nothing to decide (no token-based matcher)")
	}
}

func ruleC14b(c *Ctx) {
	p := c.P
	g, _ := p.Restful.Members[strategySwitch].(*ssa.Global)
	if g == nil {
		// no switch: C14.a holds unconditionally or not at all
		c.triv("-", "no strategy switch "+strategySwitch, "-", "there is one strategy; C14.a applies to every cut")
		return
	}
	initFn := p.Restful.Func("init")
	nInit := 0
	var fns []*ssa.Function
	if initFn != nil {
		fns = append(fns, initFn)
	}
	fns = append(fns, p.SrcFunc...)
	seenFn := map[*ssa.Function]bool{}
	for _, fn := range fns {
		if seenFn[fn] || fn.Blocks == nil {
			continue
		}
		seenFn[fn] = true
		isInit := fn == initFn || (fn.Synthetic != "" && strings.HasPrefix(fn.Name(), "init"))
		eachInstr(fn, func(i ssa.Instruction) {
			st, ok := i.(*ssa.Store)
			if !ok || st.Addr != ssa.Value(g) {
				return
			}
			if isInit {
				nInit++
				k, isC := constBool(st.Val)
				c.check(isC && k, "init", "initial value of "+strategySwitch, p.ipos(st), "the constant true: trimming is the default strategy",
					"the switch does not start as the constant true: without any configuration `/p/` is tokenised with its trailing slash and is routed differently from `/p`")
				return
			}
			c.bad(p.fname(fn), "store to "+strategySwitch, p.ipos(st), "a library function changes the process-wide path strategy: after it has run, `/p/` and `/p` are routed differently although the user never chose that")
		})
		// the address handed out
		eachInstr(fn, func(i ssa.Instruction) {
			if _, isStore := i.(*ssa.Store); isStore {
				return
			}
			if u, isLoad := i.(*ssa.UnOp); isLoad && u.Op == token.MUL {
				return
			}
			for _, op := range i.Operands(nil) {
				if *op == ssa.Value(g) {
					c.bad(p.fname(fn), "address of "+strategySwitch+" escapes", p.ipos(i), "the switch can be changed through the pointer by code this analysis does not see")
				}
			}
		})
	}
	if nInit == 0 {
		c.bad("init", "initial value of "+strategySwitch, p.pos(g.Pos()), "the switch has no initialiser: it starts as false, so the default strategy does not trim and `/p/` differs from `/p`")
	}
}

func ruleC14c(c *Ctx) {
	p := c.P
	roles := p.Roles()
	n := 0
	for _, fn := range p.SrcFunc {
		if !p.inModule(fn) || fn.Blocks == nil || !roles.RequestPath[fn] {
			continue
		}
		s := summariseAcceptance(p, fn)
		if s.RouteMatch == nil || len(s.Accept) == 0 {
			continue
		}
		n++
		has := map[string]bool{}
		for _, k := range s.Accept {
			has[k] = true
		}
		ok := has["<any final group>"] || !has[""] || has["/"]
		c.check(ok, p.fname(fn), "acceptance on the final group of the route match", p.ipos(s.RouteMatch),
			"final group in {"+quoteAll(s.Accept)+"}: \"/\" is admitted wherever the empty group is",
			"a route is accepted for an empty final group but not for \"/\" (accepted: {"+quoteAll(s.Accept)+"}): `/p` is routed, `/p/` is not")
	}
	if n == 0 {
		c.note("-", "no acceptance on a final group", "-", "no regexp-based route acceptance found")
	}
	_ = sort.Strings
	ruleC14cPairs(c)
}

func ruleC14d(c *Ctx) {
	p := c.P
	roles := p.Roles()
	type reg struct {
		r      muxRegistration
		base   ssa.Value
		slash  bool
		handle ssa.Value
	}
	byFn := map[*ssa.Function][]reg{}
	var order []*ssa.Function
	for _, r := range serviceRegistrations(p) {
		if !roles.MutatorPath[r.Fn] {
			continue
		}
		cc := callCommon(r.Call)
		if _, isC := constStr(r.Key); isC {
			continue // "/" is a subtree pattern: it answers every path
		}
		// only patterns computed from a WebService
		fromSvc := false
		for _, prm := range r.Fn.Params {
			if isPtrToRestful(prm.Type(), "WebService") {
				fromSvc = true
			}
		}
		if !fromSvc {
			continue
		}
		x := reg{r: r, base: strip(r.Key), handle: cc.Args[2]}
		if bo, ok := x.base.(*ssa.BinOp); ok && bo.Op == token.ADD {
			if k, isC := constStr(bo.Y); isC && k == "/" {
				x.base, x.slash = strip(bo.X), true
			}
		}
		if _, seen := byFn[r.Fn]; !seen {
			order = append(order, r.Fn)
		}
		byFn[r.Fn] = append(byFn[r.Fn], x)
	}
	n := 0
	for _, fn := range order {
		regs := byFn[fn]
		facts := factsAt(fn)
		name := p.fname(fn)
		for _, a := range regs {
			n++
			var twin *reg
			for k := range regs {
				b := &regs[k]
				if b.slash == a.slash {
					continue
				}
				if b.base == a.base || p.sameValue(a.base, b.base) {
					twin = b
				}
			}
			what := "registration of the pattern"
			if a.slash {
				what = "registration of the pattern + \"/\""
			}
			if twin == nil {
				miss := "pattern + \"/\""
				if a.slash {
					miss = "the pattern without the slash"
				}
				c.bad(name, what+" has its twin", p.ipos(a.r.Call), miss+" is not registered with it: through ServeHTTP one of `/p`, `/p/` does not reach the dispatcher (mux 404 or 301) while the other does")
				continue
			}
			together := a.r.Call.Block() == twin.r.Call.Block() || sameFacts(facts[a.r.Call.Block()], facts[twin.r.Call.Block()])
			sameH := sameHandlerValue(p, a.handle, twin.handle)
			c.check(together && sameH, name, what+" has its twin", p.ipos(a.r.Call), "registered together with its twin at "+p.ipos(twin.r.Call)+" for the same handler",
				"the twin at "+p.ipos(twin.r.Call)+" is registered under other conditions or for another handler: `/p` and `/p/` are answered differently")
		}
	}
	if n == 0 {
		c.note("-", "no computed service pattern is registered", "-", "every service is served from the root registration")
	}
}

// sameHandlerValue: the two handler operands denote the same function value (one value, the same method value of
// the same receiver, or the same function).
func sameHandlerValue(p *Program, a, b ssa.Value) bool {
	a, b = strip(a), strip(b)
	if a == b || p.sameRegistered(a, b) {
		return true
	}
	ma, okA := a.(*ssa.MakeClosure)
	mb, okB := b.(*ssa.MakeClosure)
	sameFn := func(x, y ssa.Value) bool {
		fx, ok1 := x.(*ssa.Function)
		fy, ok2 := y.(*ssa.Function)
		return x == y || (ok1 && ok2 && p.unwrap(fx) == p.unwrap(fy) && (fx.Synthetic != "") == (fy.Synthetic != ""))
	}
	if okA && okB && sameFn(ma.Fn, mb.Fn) && len(ma.Bindings) == len(mb.Bindings) {
		for k := range ma.Bindings {
			if strip(ma.Bindings[k]) != strip(mb.Bindings[k]) && !p.sameValue(ma.Bindings[k], mb.Bindings[k]) {
				return false
			}
		}
		return true
	}
	fa, okA := a.(*ssa.Function)
	fb, okB := b.(*ssa.Function)
	return okA && okB && fa == fb
}

func sameFacts(a, b map[condFact]bool) bool {
	if len(a) != len(b) {
		return false
	}
	for f := range a {
		if !b[f] {
			return false
		}
	}
	return true
}

var _ = types.Typ

// ---------------------------------------------------------------------------
// C14.e

var rawPredicates = map[string]bool{"strings.HasPrefix": true, "strings.HasSuffix": true, "strings.Contains": true, "strings.Index": true, "strings.LastIndex": true,
	"strings.EqualFold": true, "strings.Compare": true, "strings.Count": true, "strings.ContainsAny": true, "strings.IndexAny": true}

// harmlessWithConst: predicates whose answer is the same for p and p + "/" when the other operand is a constant
// that does not end in a slash (an occurrence of it cannot include the final character).
var harmlessWithConst = map[string]bool{"strings.HasPrefix": true, "strings.Contains": true, "strings.Index": true, "strings.Count": true}

func ruleC14e(c *Ctx) {
	p := c.P
	roles := p.Roles()
	up := urlPathParams(p, true)
	n := 0
	for _, fn := range p.SrcFunc {
		if !p.inModule(fn) || fn.Blocks == nil || !roles.RequestPath[fn] {
			continue
		}
		name := p.fname(fn)
		isRaw := func(v ssa.Value) bool {
			v = strip(v)
			return isStringType(v.Type()) && up.derives(p, v, map[ssa.Value]bool{})
		}
		facts := factsAt(fn)
		switchOff := func(b *ssa.BasicBlock) bool {
			for f := range facts[b] {
				if is, pol := strategyCond(f.Cond); is && pol != f.Pol {
					return true
				}
			}
			return false
		}
		eachInstr(fn, func(i ssa.Instruction) {
			if switchOff(i.Block()) {
				return
			}
			switch x := i.(type) {
			case *ssa.BinOp:
				switch x.Op {
				case token.EQL, token.NEQ, token.LSS, token.GTR, token.LEQ, token.GEQ:
				default:
					return
				}
				for _, pr := range [][2]ssa.Value{{x.X, x.Y}, {x.Y, x.X}} {
					if !isRaw(pr[0]) {
						continue
					}
					n++
					k, isC := constStr(pr[1])
					c.check(isC && (k == "/" || k == ""), name, "comparison of the untrimmed request path", p.ipos(x),
						"with the constant "+quoteAll([]string{k})+": the root path, which the property excludes",
						"the request path is compared as it arrived (with "+operandDesc(pr[1])+"): `/p/` and `/p` give different answers")
					return
				}
			case *ssa.Call:
				cn := calleeName(&x.Call)
				// a suffix taken off the path as it arrived: with the trailing slash in place the suffix is not there
				if (cn == "strings.TrimSuffix" || cn == "strings.TrimRight" || cn == "strings.CutSuffix") && !removesTrailingSlash(x) && isRaw(x.Call.Args[0]) {
					n++
					c.bad(name, shortCallee(&x.Call)+" on the untrimmed request path", p.ipos(x), "a suffix ("+operandDesc(x.Call.Args[1])+") is removed from the request path as it arrived: for `/p/` the path ends in the slash, the suffix stays, and what is derived from the result differs from `/p`")
					return
				}
				// a pattern that is not a compiled path expression (those end in the optional-slash group)
				if strings.HasPrefix(cn, "(*regexp.Regexp).") && len(x.Call.Args) > 1 && isRaw(x.Call.Args[1]) && matcherLevel(x.Call.Args[0]) == "" {
					if _, f, isF := fieldLoad(strip(x.Call.Args[0])); !isF || f.Name() != "Matcher" {
						n++
						c.bad(name, shortCallee(&x.Call)+" of a pattern that is not a path expression on the untrimmed request path", p.ipos(x), "the request path is matched as it arrived against "+operandDesc(x.Call.Args[0])+": an end-anchored pattern answers differently for `/p/` and `/p`")
						return
					}
				}
				if (cn == "regexp.MatchString" || cn == "regexp.Match") && len(x.Call.Args) > 1 && isRaw(x.Call.Args[1]) {
					n++
					c.bad(name, cn+" on the untrimmed request path", p.ipos(x), "the request path is matched as it arrived against an ad-hoc pattern: an end-anchored pattern answers differently for `/p/` and `/p`")
					return
				}
				if strings.HasPrefix(cn, "(*sync.Map).") && len(x.Call.Args) > 1 && isRaw(strip(x.Call.Args[1])) {
					n++
					c.bad(name, "untrimmed request path used as a key of a sync.Map", p.ipos(x), "what is remembered for `/p` is not found for `/p/`: the two requests are answered from different entries")
					return
				}
				if rawPredicates[cn] {
					for k, a := range x.Call.Args {
						if k > 1 || !isRaw(a) {
							continue
						}
						n++
						other := x.Call.Args[1-k]
						cs, isC := constStr(other)
						ok := k == 0 && isC && harmlessWithConst[cn] && (!strings.HasSuffix(cs, "/") || cs == "/")
						c.check(ok, name, shortCallee(&x.Call)+" on the untrimmed request path", p.ipos(x),
							"constant operand "+quoteAll([]string{cs})+" (no trailing slash, or the slash alone): the same answer for `/p` and `/p/`",
							"the request path is tested as it arrived against "+operandDesc(other)+": the answer can differ between `/p` and `/p/`")
						return
					}
				}
			case *ssa.MapUpdate:
				if isRaw(x.Value) || isRaw(x.Key) {
					n++
					c.bad(name, "untrimmed request path stored in a map", p.ipos(x), "a piece of the request path that still carries the trailing slash is bound (or used as a key): the value differs between `/p` and `/p/`")
				}
			case *ssa.Lookup:
				if _, isMap := x.X.Type().Underlying().(*types.Map); isMap && isRaw(x.Index) {
					n++
					c.bad(name, "untrimmed request path used as a map key", p.ipos(x), "looked up as it arrived: `/p/` misses what `/p` finds")
				}
			case *ssa.Store:
				if fa, isField := x.Addr.(*ssa.FieldAddr); isField && isRaw(x.Val) {
					if fld := fieldOfAddr(fa); fld != nil && fld.Pkg() != nil && fld.Pkg().Path() == modulePath && isStringType(fld.Type()) {
						return // a string field of a module struct: its readers are followed (the value stays "untrimmed" there)
					}
					n++
					c.bad(name, "untrimmed request path stored in a field", p.ipos(x), "kept as it arrived: what reads the field sees `/p/` and `/p` as different paths")
				}
			}
		})
	}
	if n == 0 {
		c.triv("-", "the untrimmed request path meets no predicate and is not bound", "-", "it is only trimmed, matched by a path expression, logged or passed on")
	}
}

// ---------------------------------------------------------------------------
// C04.h: what is bound comes from the pieces the path was cut into. A value stored in a parameter map on the request
// path is an element of the token slice (or joined from elements), or a group of a path expression's match - never a
// piece the binder finds again in the URL path by searching or slicing the path string itself: strings.Index finds
// the first place the text occurs, not the position of the segment (`/files/{p:*}` with /files/files/readme.txt binds
// files/files/readme.txt), and an offset computed from the template is right only as long as nothing was trimmed.
func ruleBoundFromTokens(c *Ctx) {
	p := c.P
	roles := p.Roles()
	up := urlPathParams(p, false)
	n := 0
	for _, fn := range p.SrcFunc {
		if !p.inModule(fn) || fn.Blocks == nil || !roles.RequestPath[fn] {
			continue
		}
		name := p.fname(fn)
		eachInstr(fn, func(i ssa.Instruction) {
			mu, ok := i.(*ssa.MapUpdate)
			if !ok || !isStringType(mu.Value.Type()) {
				return
			}
			mt, ok := mu.Map.Type().Underlying().(*types.Map)
			if !ok || !isStringType(mt.Key()) || !isStringType(mt.Elem()) {
				return
			}
			// only maps that are (or become) path parameters: built in a function that takes the URL path
			takesPath := false
			for _, prm := range fn.Params {
				if up.param[prm] {
					takesPath = true
				}
			}
			if !takesPath {
				return
			}
			n++
			c.check(!up.derives(p, mu.Value, map[ssa.Value]bool{}), name, "bound value comes from the tokens or from a match group", p.ipos(mu),
				"not a piece of the URL path string found by slicing or searching it",
				"the value bound here is cut out of the URL path string itself (sliced, searched or trimmed), not taken from the tokens the router matched or from a group of the path expression: position and extent are found again by text search or arithmetic and differ from the matched segment for some URLs")
		})
	}
	if n == 0 {
		c.note("-", "no parameter map is filled in a function that takes the URL path", "-", "nothing to decide")
	}
}

// ---------------------------------------------------------------------------
// C04.i: the literal text around a variable inside one segment (`{name}.js`, `v{major}`) is cut off by position - the
// template says how long it is. A binder that *searches* the request token for the literal text takes the first
// place it occurs as the end of the value (`app.json.js` against `{name}.js` binds `app`), or the last one as its
// start. On the request path: the result of strings.Index(token, x) is not the high bound, and the result of
// strings.LastIndex(token, x) not the low bound, of a slice of that same request token that ends up in a parameter map.
func ruleAffixByPosition(c *Ctx) {
	p := c.P
	roles := p.Roles()
	up := urlPathParams(p, false)
	n := 0
	// request tokens: elements of what a call returned for the URL path (the tokenizer), and slices of them
	var isToken func(v ssa.Value, d int) bool
	isToken = func(v ssa.Value, d int) bool {
		v = strip(v)
		if d > 5 || v == nil {
			return false
		}
		switch x := v.(type) {
		case *ssa.Slice:
			return isToken(x.X, d+1)
		case *ssa.Phi:
			for _, e := range x.Edges {
				if isToken(e, d+1) {
					return true
				}
			}
		case *ssa.UnOp:
			if x.Op != token.MUL {
				return false
			}
			if ia, ok := x.X.(*ssa.IndexAddr); ok {
				for _, src := range p.sources(ia.X, provDefault) {
					if call, ok := src.(*ssa.Call); ok {
						for _, a := range call.Call.Args {
							if isStringType(a.Type()) && up.derives(p, a, map[ssa.Value]bool{}) {
								return true
							}
						}
					}
				}
			}
			for _, a := range p.loadOfCell(x) {
				for _, st := range p.cellStores(a) {
					if isToken(st.Val, d+1) {
						return true
					}
				}
			}
		case *ssa.Call:
			if cal := x.Call.StaticCallee(); cal != nil && p.inModule(cal) && len(x.Call.Args) > 0 && isStringType(x.Type()) {
				// a module string->string helper applied to a token (removeCustomVerb)
				for _, a := range x.Call.Args {
					if isStringType(a.Type()) && isToken(a, d+1) {
						return true
					}
				}
			}
		}
		return false
	}
	for _, fn := range p.SrcFunc {
		if !p.inModule(fn) || fn.Blocks == nil || !roles.RequestPath[fn] {
			continue
		}
		takesPath := false
		for _, prm := range fn.Params {
			if up.param[prm] {
				takesPath = true
			}
		}
		if !takesPath {
			continue
		}
		name := p.fname(fn)
		eachInstr(fn, func(i ssa.Instruction) {
			call, ok := i.(*ssa.Call)
			if !ok {
				return
			}
			cn := calleeName(&call.Call)
			if cn != "strings.Index" && cn != "strings.LastIndex" {
				return
			}
			hay := call.Call.Args[0]
			if !isToken(hay, 0) {
				return
			}
			if k, isC := constStr(call.Call.Args[1]); isC && len(k) == 1 {
				return // a single delimiter character ("{", ":"): the grammar of the token, not a literal of the template
			}
			// bounds of slices of the same token
			var visit func(v ssa.Value, d int)
			bad := ""
			visit = func(v ssa.Value, d int) {
				if d > 3 {
					return
				}
				for _, r := range referrers(v) {
					switch y := r.(type) {
					case *ssa.Slice:
						if !isToken(y.X, 0) {
							continue
						}
						if cn == "strings.Index" && y.High == v {
							bad = "the first occurrence of " + operandDesc(call.Call.Args[1]) + " is taken for the end of the value (" + p.ipos(y) + ")"
						}
						if cn == "strings.LastIndex" && y.Low == v {
							bad = "the last occurrence of " + operandDesc(call.Call.Args[1]) + " is taken for the start of the value (" + p.ipos(y) + ")"
						}
					case *ssa.Phi:
						visit(y, d+1)
					case *ssa.BinOp:
						if y.Op == token.ADD || y.Op == token.SUB {
							visit(y, d+1)
						}
					}
				}
			}
			visit(call, 0)
			n++
			c.check(bad == "", name, "a literal around a variable is cut off by position, not by search", p.ipos(call), "the search result is not a bound of a slice of the request token",
				bad+": for a value that contains the literal text once more the bound parameter is shorter (longer) than the text the template variable stands for")
		})
	}
	if n == 0 {
		c.note("-", "no request token is searched for text", "-", "nothing to decide")
	}
}

// ---------------------------------------------------------------------------
// C14.c, second clause: wherever the remainder of a match on the path (the final group) is tested for being empty, the
// same decision is reached for "/": the test for "" (or length 0) and a test for "/" of the same group lead to the
// same block. A shortcut "the literal root consumed the whole path" taken for the empty remainder only sends `/p` one
// way and `/p/` another.
func ruleC14cPairs(c *Ctx) {
	p := c.P
	roles := p.Roles()
	up := urlPathParams(p, false)
	for _, fn := range p.SrcFunc {
		if !p.inModule(fn) || fn.Blocks == nil || !roles.RequestPath[fn] {
			continue
		}
		name := p.fname(fn)
		type test struct {
			group ssa.Value // the match the final group belongs to
			slash bool
			blk   *ssa.BasicBlock
			eqTo  *ssa.BasicBlock
			at    ssa.Instruction
		}
		var tests []test
		groupOf := func(v ssa.Value) (ssa.Value, bool) {
			v = strip(v)
			if call, ok := v.(*ssa.Call); ok && isBuiltinCall(call, "len") {
				v = strip(call.Call.Args[0])
			}
			m, ok := lastElementOf(v)
			if !ok {
				return nil, false
			}
			call, ok := strip(m).(*ssa.Call)
			if !ok || !strings.HasPrefix(calleeName(&call.Call), "(*regexp.Regexp).FindStringSubmatch") || len(call.Call.Args) < 2 {
				return nil, false
			}
			if !up.derives(p, call.Call.Args[1], map[ssa.Value]bool{}) {
				return nil, false
			}
			return call, true
		}
		for _, b := range fn.Blocks {
			iff, ok := b.Instrs[len(b.Instrs)-1].(*ssa.If)
			if !ok {
				continue
			}
			bo, ok := iff.Cond.(*ssa.BinOp)
			if !ok || (bo.Op != token.EQL && bo.Op != token.NEQ) {
				continue
			}
			for _, pr := range [][2]ssa.Value{{bo.X, bo.Y}, {bo.Y, bo.X}} {
				g, ok := groupOf(pr[0])
				if !ok {
					continue
				}
				isEmpty, isSlash := false, false
				if k, isC := constStr(pr[1]); isC {
					isEmpty, isSlash = k == "", k == "/"
				} else if n, isN := constInt(pr[1]); isN && n == 0 {
					isEmpty = true
				}
				if !isEmpty && !isSlash {
					continue
				}
				eq := b.Succs[0]
				if bo.Op == token.NEQ {
					eq = b.Succs[1]
				}
				tests = append(tests, test{g, isSlash, b, eq, iff})
			}
		}
		for _, t := range tests {
			if t.slash {
				continue
			}
			paired := false
			for _, u := range tests {
				if u.slash && u.group == t.group && u.eqTo == t.eqTo {
					paired = true
				}
			}
			// the disjunction computed into a variable: the equal edge of the empty test enters a block whose phi
			// takes, on another edge, the comparison of the same group with "/"
			if !paired {
				for _, ins := range t.eqTo.Instrs {
					ph, ok := ins.(*ssa.Phi)
					if !ok {
						break
					}
					for _, e := range ph.Edges {
						bo, ok := e.(*ssa.BinOp)
						if !ok || bo.Op != token.EQL {
							continue
						}
						for _, pr := range [][2]ssa.Value{{bo.X, bo.Y}, {bo.Y, bo.X}} {
							if g, ok := groupOf(pr[0]); ok && g == t.group {
								if k, isC := constStr(pr[1]); isC && k == "/" {
									paired = true
								}
							}
						}
					}
				}
			}
			c.check(paired, name, "an empty remainder and the remainder \"/\" lead to the same decision", p.ipos(t.at),
				"the test for the empty final group has a twin for \"/\" with the same target",
				"the final group of the match on the path is tested for being empty here and no test of the same group for \"/\" leads to the same place: `/p` (remainder empty) and `/p/` (remainder \"/\") part at this point")
		}
	}
}
