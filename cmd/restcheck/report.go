package main

import (
	"bufio"
	"encoding/json"
	"fmt"
	"os"
	"path/filepath"
	"sort"
	"strings"
	"time"
)

type Verdict string

const (
	Discharged Verdict = "discharged"
	Violated   Verdict = "violated"
	Undecided  Verdict = "undecided"
	Noted      Verdict = "note" // recorded, never fails the check
)

// Obligation is one decided instance of a rule at a semantic anchor.
type Obligation struct {
	Rule       string  `json:"rule"`
	Func       string  `json:"function"`
	Construct  string  `json:"construct"`
	Pos        string  `json:"pos"`
	Verdict    Verdict `json:"verdict"`
	Detail     string  `json:"detail,omitempty"`
	Path       string  `json:"path,omitempty"`
	Nontrivial bool    `json:"nontrivial"`
	Known      string  `json:"known_finding,omitempty"`
	// Related: other functions the verdict depends on (the sibling a computation is compared with); a failing
	// obligation is retried on the normal forms of these functions as well
	Related []string `json:"related,omitempty"`
}

func (o Obligation) Key() string { return o.Rule + "|" + o.Func + "|" + o.Construct }

// Rule is an instance of a template of DESIGN §3 applied to one clause of a property.
type Rule struct {
	ID         string // e.g. "C13.c"
	Template   string // e.g. "T-TYPESTATE"
	Doc        string // what is decided and why its breaking breaks the property
	Required   bool   // zero anchors is a failure (the property needs the mechanism)
	SourceOnly bool   // the rule judges the source as written (names); normal forms say nothing about it
	Run        func(c *Ctx)
}

type Property struct {
	ID          string
	Title       string
	Decided     string // the clauses decided
	NotDecided  string // the part of the statement this check does not decide
	Assumptions []string
	Rules       []Rule
}

// Ctx collects obligations while the rules of one property run.
type Ctx struct {
	P        *Program
	Prop     *Property
	cur      *Rule
	Obls     []Obligation
	Counters map[string]int
	seenKey  map[string]int
}

func (c *Ctx) add(v Verdict, fn, construct, pos, detail string, nontrivial bool) {
	o := Obligation{Rule: c.cur.ID, Func: fn, Construct: construct, Pos: pos, Verdict: v, Detail: detail, Nontrivial: nontrivial}
	// ordinal among equal constructs keeps keys unique and stable under unrelated edits
	k := o.Key()
	c.seenKey[k]++
	if n := c.seenKey[k]; n > 1 {
		o.Construct = fmt.Sprintf("%s #%d", o.Construct, n)
	}
	c.Obls = append(c.Obls, o)
}

func (c *Ctx) ok(fn, construct, pos, detail string) {
	c.add(Discharged, fn, construct, pos, detail, true)
}
func (c *Ctx) triv(fn, construct, pos, detail string) {
	c.add(Discharged, fn, construct, pos, detail, false)
}
func (c *Ctx) bad(fn, construct, pos, detail string) {
	c.add(Violated, fn, construct, pos, detail, true)
}
func (c *Ctx) undecided(fn, construct, pos, detail string) {
	c.add(Undecided, fn, construct, pos, detail, true)
}
func (c *Ctx) note(fn, construct, pos, detail string) {
	c.add(Noted, fn, construct, pos, detail, false)
}

// check records discharged when cond holds, violated otherwise.
func (c *Ctx) check(cond bool, fn, construct, pos, okDetail, badDetail string) bool {
	if cond {
		c.ok(fn, construct, pos, okDetail)
	} else {
		c.bad(fn, construct, pos, badDetail)
	}
	return cond
}

func (c *Ctx) count(name string, n int) { c.Counters[name] += n }

// relate names another function the obligation just recorded depends on.
func (c *Ctx) relate(fn string) {
	if n := len(c.Obls); n > 0 && fn != "" {
		c.Obls[n-1].Related = append(c.Obls[n-1].Related, fn)
	}
}

// ---------------------------------------------------------------------------
// known findings

type knownFinding struct {
	Property string
	Key      string
	Text     string
}

func verifDir() string {
	if d := os.Getenv("VERIF_DIR"); d != "" {
		return d
	}
	exe, err := os.Executable()
	if err == nil {
		d := filepath.Dir(filepath.Dir(exe))
		if _, err := os.Stat(filepath.Join(d, "MANIFEST.json")); err == nil {
			return d
		}
	}
	wd, _ := os.Getwd()
	return wd
}

// readKnownFindings parses /verif/KNOWN_FINDINGS.txt. It is never written at run time.
//
//	known: property=C07 key=<rule|function|construct> :: <what fails>
//	fixed: property=C13 <commit> <what failed>
func readKnownFindings() ([]knownFinding, []string, error) {
	f, err := os.Open(filepath.Join(verifDir(), "KNOWN_FINDINGS.txt"))
	if err != nil {
		if os.IsNotExist(err) {
			return nil, nil, nil
		}
		return nil, nil, err
	}
	defer f.Close()
	var out []knownFinding
	var fixed []string
	sc := bufio.NewScanner(f)
	sc.Buffer(make([]byte, 1<<20), 1<<20)
	for sc.Scan() {
		line := strings.TrimSpace(sc.Text())
		if line == "" || strings.HasPrefix(line, "#") {
			continue
		}
		if strings.HasPrefix(line, "fixed:") {
			fixed = append(fixed, line)
			continue
		}
		if !strings.HasPrefix(line, "known:") {
			return nil, nil, fmt.Errorf("KNOWN_FINDINGS.txt: unrecognised line %q", line)
		}
		rest := strings.TrimSpace(strings.TrimPrefix(line, "known:"))
		parts := strings.SplitN(rest, " :: ", 2)
		if len(parts) != 2 {
			return nil, nil, fmt.Errorf("KNOWN_FINDINGS.txt: missing ' :: ' in %q", line)
		}
		head := parts[0]
		if !strings.HasPrefix(head, "property=") {
			return nil, nil, fmt.Errorf("KNOWN_FINDINGS.txt: missing property= in %q", line)
		}
		sp := strings.Index(head, " key=")
		if sp < 0 {
			return nil, nil, fmt.Errorf("KNOWN_FINDINGS.txt: missing key= in %q", line)
		}
		out = append(out, knownFinding{
			Property: strings.TrimPrefix(head[:sp], "property="),
			Key:      strings.TrimSpace(head[sp+len(" key="):]),
			Text:     strings.TrimSpace(parts[1]),
		})
	}
	return out, fixed, sc.Err()
}

// ---------------------------------------------------------------------------
// evidence

type replayFile struct {
	Property  string     `json:"property"`
	Repo      string     `json:"repo"`
	Oblig     Obligation `json:"obligation"`
	RuleDoc   string     `json:"rule_doc"`
	Template  string     `json:"template"`
	ReplayCmd string     `json:"replay_cmd"`
}

type runResult struct {
	Violations   int
	Known        int
	Lines        []string
	EvidencePath string
}

func finish(c *Ctx, tier string, seed int64, start time.Time, extra map[string]interface{}, writeEvidence bool) runResult {
	var res runResult
	known, fixed, err := readKnownFindings()
	if err != nil {
		res.Lines = append(res.Lines, "ERROR: "+err.Error())
		res.Violations++
	}
	knownByKey := map[string]knownFinding{}
	for _, k := range known {
		if k.Property == c.Prop.ID {
			knownByKey[k.Key] = k
		}
	}
	usedKnown := map[string]bool{}
	outDir := filepath.Join(verifDir(), "out", "violations")
	ruleDoc := map[string]Rule{}
	for _, r := range c.Prop.Rules {
		ruleDoc[r.ID] = r
	}
	nObl, nDis, nNontriv := 0, 0, 0
	distinct := map[string]bool{}
	perRule := map[string]int{}
	vcount := 0
	for i := range c.Obls {
		o := &c.Obls[i]
		if o.Verdict == Noted {
			continue
		}
		nObl++
		perRule[o.Rule]++
		if o.Nontrivial {
			if !distinct[o.Key()] {
				distinct[o.Key()] = true
				nNontriv++
			}
		}
		switch o.Verdict {
		case Discharged:
			nDis++
		case Violated, Undecided:
			if k, ok := knownByKey[o.Key()]; ok {
				o.Known = k.Text
				usedKnown[o.Key()] = true
				res.Known++
				res.Lines = append(res.Lines, fmt.Sprintf("KNOWN-FINDING: property=%s %s [%s at %s]", c.Prop.ID, k.Text, o.Key(), o.Pos))
				continue
			}
			vcount++
			path := filepath.Join(outDir, fmt.Sprintf("%s-%d.json", c.Prop.ID, vcount))
			if writeEvidence {
				os.MkdirAll(outDir, 0o755)
				rf := replayFile{Property: c.Prop.ID, Repo: c.P.Repo, Oblig: *o, RuleDoc: ruleDoc[o.Rule].Doc, Template: ruleDoc[o.Rule].Template,
					ReplayCmd: "bin/restcheck -replay " + path}
				b, _ := json.MarshalIndent(rf, "", "  ")
				os.WriteFile(path, b, 0o644)
			}
			res.Lines = append(res.Lines, fmt.Sprintf("  %s %s: %s in %s at %s: %s", strings.ToUpper(string(o.Verdict)), o.Rule, o.Construct, o.Func, o.Pos, o.Detail))
			res.Lines = append(res.Lines, fmt.Sprintf("VIOLATION property=%s replay=%s", c.Prop.ID, path))
			res.Violations++
		}
	}
	var stale []string
	for k := range knownByKey {
		if !usedKnown[k] {
			stale = append(stale, k)
		}
	}
	sort.Strings(stale)

	// samples: all violated/undecided plus a spread of discharged obligations
	var samples []Obligation
	for _, o := range c.Obls {
		if o.Verdict == Violated || o.Verdict == Undecided {
			samples = append(samples, o)
		}
	}
	perRuleShown := map[string]int{}
	for _, o := range c.Obls {
		if o.Verdict == Discharged && o.Nontrivial && perRuleShown[o.Rule] < 6 {
			perRuleShown[o.Rule]++
			samples = append(samples, o)
		}
	}
	var notes []Obligation
	for _, o := range c.Obls {
		if o.Verdict == Noted {
			notes = append(notes, o)
		}
	}
	var rulesDoc []map[string]interface{}
	for _, r := range c.Prop.Rules {
		rulesDoc = append(rulesDoc, map[string]interface{}{"id": r.ID, "template": r.Template, "doc": r.Doc, "instances": perRule[r.ID], "required": r.Required})
	}
	roles := c.P.Roles()
	cov := map[string]interface{}{
		"explanation": "Static analysis of /repo's type-checked SSA form (nothing is executed). Decided: " + c.Prop.Decided +
			" NOT decided by this check: " + c.Prop.NotDecided,
		"canonical_names":                c.P.Canonical,
		"rules_decided_on_a_normal_form": c.Counters["rules_decided_on_a_normal_form"],
		"obligations":                    nObl,
		"discharged":                     nDis,
		"evaluations":                    nObl,
		"distinct_nontrivial":            nNontriv,
		"rule":                           "one obligation per (rule, function, semantic construct) anchor found in the current tree; non-trivial = its verdict needed a dataflow/dominance/provenance argument rather than 'no such site'; distinct by obligation key",
		"samples":                        samples,
		"notes":                          notes,
		"rules":                          rulesDoc,
		"known_findings":                 res.Known,
		"stale_known_findings":           stale,
		"fixed_findings":                 filterFixed(fixed, c.Prop.ID),
		"functions_analysed":             len(c.P.SrcFunc),
		"request_path_functions":         len(c.P.requestPathFuncs()),
		"request_roots":                  len(roles.RequestRoots),
		"packages":                       2,
		"files":                          c.P.NFiles,
		"counters":                       c.Counters,
		"checker_cmd":                    "bin/restcheck -property " + c.Prop.ID + " -tier " + tier,
		"trusted_base": []string{"go/packages, go/types, go/ssa (golang.org/x/tools v0.29.0)", "Go semantics of defer/recover/select/receivers/append",
			"modelled library contracts listed in DESIGN.md §8"},
		"exhaustive": true,
		"repo":       c.P.Repo,
	}
	for k, v := range extra {
		cov[k] = v
	}
	ev := map[string]interface{}{
		"property_id": c.Prop.ID,
		"tier":        tier,
		"seed":        seed,
		"level":       "other",
		"coverage":    cov,
		"assumptions": append([]string{"user callbacks (filters, route functions, conditions, custom routers/providers) are opaque",
			"lock identity and effects are field-based, not instance-based"}, c.Prop.Assumptions...),
		"wall_s":     time.Since(start).Seconds(),
		"violations": res.Violations,
	}
	if writeEvidence {
		evp := filepath.Join(verifDir(), "evidence", c.Prop.ID+".json")
		os.MkdirAll(filepath.Dir(evp), 0o755)
		b, _ := json.MarshalIndent(ev, "", " ")
		if err := os.WriteFile(evp, append(b, '\n'), 0o644); err != nil {
			res.Lines = append(res.Lines, "ERROR: cannot write evidence: "+err.Error())
			res.Violations++
		}
		res.EvidencePath = evp
	}
	res.Lines = append([]string{fmt.Sprintf("%s: %d obligations, %d discharged, %d known findings, %d violations (%d rules; %d functions, %d on the request path)",
		c.Prop.ID, nObl, nDis, res.Known, res.Violations, len(c.Prop.Rules), len(c.P.SrcFunc), len(c.P.requestPathFuncs()))}, res.Lines...)
	return res
}

func filterFixed(fixed []string, id string) []string {
	var out []string
	for _, f := range fixed {
		if strings.Contains(f, "property="+id+" ") || strings.Contains(f, "property="+id+",") || strings.Contains(f, ","+id+" ") || strings.Contains(f, ","+id+",") {
			out = append(out, f)
		}
	}
	return out
}
