package main

import (
	"bufio"
	"bytes"
	"encoding/json"
	"fmt"
	"math/rand"
	"os"
	"os/exec"
	"path/filepath"
	"sort"
	"strings"
	"sync"
	"time"
)

// Thorough tier (DESIGN §2.4): the quick rules, plus
//  (a) the same rules on the GOARCH=386 build and (informational) on the build with test files,
//  (b) the sensitivity suite: seeded breaking changes must be reported, benign refactorings must be silent,
//  (c) cross-reference output of generic linters (recorded only).
// Variants are only ANALYSED, each in a scratch copy outside /repo and /verif and in a separate
// process; nothing of /repo is ever executed.

type variant struct {
	Name    string
	Path    string
	Kind    string   // breaking | benign
	Expect  []string // rule ids expected (breaking), empty for benign
	Props   []string // properties it is relevant for ("all" = every property)
	Desc    string
	Origin  string // "hand" or "sub-agent"
	Applied bool
}

func parseVariantHeader(path string) (variant, error) {
	v := variant{Path: path, Name: strings.TrimSuffix(filepath.Base(path), ".patch"), Origin: "hand"}
	f, err := os.Open(path)
	if err != nil {
		return v, err
	}
	defer f.Close()
	sc := bufio.NewScanner(f)
	sc.Buffer(make([]byte, 1<<20), 1<<20)
	for sc.Scan() {
		line := sc.Text()
		if !strings.HasPrefix(line, "# ") {
			break
		}
		kv := strings.SplitN(strings.TrimPrefix(line, "# "), ": ", 2)
		if len(kv) != 2 {
			continue
		}
		switch kv[0] {
		case "variant":
			v.Name = kv[1]
		case "kind":
			v.Kind = kv[1]
		case "expect":
			if kv[1] != "none" {
				v.Expect = strings.Split(kv[1], ",")
			}
		case "properties":
			v.Props = strings.Split(kv[1], ",")
		case "desc":
			v.Desc = kv[1]
		case "origin":
			v.Origin = kv[1]
		}
	}
	return v, nil
}

func loadVariants() []variant {
	var out []variant
	dir := verifDir()
	files, _ := filepath.Glob(filepath.Join(dir, "variants", "*.patch"))
	sort.Strings(files)
	for _, f := range files {
		if v, err := parseVariantHeader(f); err == nil && v.Kind != "" {
			out = append(out, v)
		}
	}
	// sub-agent seeds
	metas, _ := filepath.Glob(filepath.Join(dir, "seeded", "*", "meta.json"))
	sort.Strings(metas)
	for _, m := range metas {
		b, err := os.ReadFile(m)
		if err != nil {
			continue
		}
		var meta struct {
			ID     string   `json:"id"`
			Breaks string   `json:"breaks_property"`
			Det    []string `json:"detected_by"`
			Miss   string   `json:"documented_miss"`
		}
		if json.Unmarshal(b, &meta) != nil {
			continue
		}
		v := variant{Name: "seeded-" + meta.ID, Path: filepath.Join(filepath.Dir(m), "patch.diff"), Kind: "breaking", Props: []string{meta.Breaks}, Origin: "sub-agent"}
		if meta.Miss != "" {
			v.Kind = "limit" // a documented miss (DESIGN 13.6)
		}
		// rules expected: those recorded for the broken property
		for _, d := range meta.Det {
			if strings.HasPrefix(d, meta.Breaks+".") {
				v.Expect = append(v.Expect, d)
			}
		}
		out = append(out, v)
	}
	return out
}

func (v variant) relevant(prop string) bool {
	listed := false
	for _, p := range v.Props {
		if p == prop || p == "all" {
			listed = true
		}
	}
	if !listed {
		return false
	}
	// a breaking variant that names the rules expected to report it is an expectation only for the properties
	// those rules belong to (it may list further properties its breakage also concerns)
	if v.Kind == "breaking" && len(v.Expect) > 0 {
		for _, e := range v.Expect {
			if strings.HasPrefix(e, prop+".") {
				return true
			}
		}
		return false
	}
	return true
}

type variantResult struct {
	Variant  string   `json:"variant"`
	Kind     string   `json:"kind"`
	Origin   string   `json:"origin"`
	Outcome  string   `json:"outcome"` // killed | missed | silent | alarmed | skipped | limit-reported | limit-silent
	Reported []string `json:"reported_rules,omitempty"`
	Expected []string `json:"expected_rules,omitempty"`
	Detail   string   `json:"detail,omitempty"`
	Seconds  float64  `json:"seconds"`
}

// analyseVariant applies v to a scratch copy of repo and runs this binary on it for one property.
func analyseVariant(repo string, v variant, prop string) (res variantResult) {
	t0 := time.Now()
	defer func() { res.Seconds = time.Since(t0).Seconds() }()
	res = variantResult{Variant: v.Name, Kind: v.Kind, Origin: v.Origin, Expected: v.Expect}
	tmp, err := os.MkdirTemp("", "restcheck-variant-")
	if err != nil {
		res.Outcome, res.Detail = "skipped", err.Error()
		return res
	}
	defer os.RemoveAll(tmp)
	if out, err := exec.Command("rsync", "-a", "--exclude", ".git", "--exclude", "examples", repo+"/", tmp+"/").CombinedOutput(); err != nil {
		res.Outcome, res.Detail = "skipped", "copy failed: "+string(out)
		return res
	}
	patch := exec.Command("patch", "-s", "-p1", "-i", v.Path)
	patch.Dir = tmp
	if out, err := patch.CombinedOutput(); err != nil {
		res.Outcome, res.Detail = "skipped", "patch no longer applies to the current tree: "+firstLine(string(out))
		return res
	}
	exe, _ := os.Executable()
	cmd := exec.Command(exe, "-repo", tmp, "-property", prop, "-no-evidence", "-json")
	cmd.Env = append(os.Environ(), "VERIF_DIR="+verifDir())
	var stdout bytes.Buffer
	cmd.Stdout = &stdout
	cmd.Stderr = &stdout
	runErr := cmd.Run()
	var obls []Obligation
	line := firstJSONLine(stdout.String())
	if line == "" || json.Unmarshal([]byte(line), &obls) != nil {
		if v.Kind == "breaking" && runErr != nil {
			// the analyser refused the variant (e.g. it does not type-check): counted as skipped
			res.Outcome, res.Detail = "skipped", "variant could not be analysed: "+firstLine(stdout.String())
			return res
		}
		res.Outcome, res.Detail = "skipped", "no obligations produced: "+firstLine(stdout.String())
		return res
	}
	known, _, _ := readKnownFindings()
	isKnown := map[string]bool{}
	for _, k := range known {
		if k.Property == prop {
			isKnown[k.Key] = true
		}
	}
	rep := map[string]bool{}
	for _, o := range obls {
		if (o.Verdict == Violated || o.Verdict == Undecided) && !isKnown[o.Key()] {
			rep[o.Rule] = true
		}
	}
	res.Reported = sortedKeys(rep)
	switch v.Kind {
	case "limit":
		// a correct new feature on which rules are known to report (DESIGN 13.6); recorded, never an expectation failure
		if len(rep) > 0 {
			res.Outcome = "limit-reported"
		} else {
			res.Outcome = "limit-silent"
		}
	case "breaking":
		if len(rep) > 0 {
			res.Outcome = "killed"
		} else {
			res.Outcome = "missed"
		}
	default:
		if len(rep) == 0 {
			res.Outcome = "silent"
		} else {
			res.Outcome = "alarmed"
			for _, o := range obls {
				if (o.Verdict == Violated || o.Verdict == Undecided) && !isKnown[o.Key()] {
					res.Detail = o.Rule + " " + o.Func + ": " + o.Construct
					break
				}
			}
		}
	}
	return res
}

func firstLine(s string) string {
	s = strings.TrimSpace(s)
	if i := strings.IndexByte(s, '\n'); i >= 0 {
		return s[:i]
	}
	return s
}

func firstJSONLine(s string) string {
	for _, l := range strings.Split(s, "\n") {
		if strings.HasPrefix(l, "[") || l == "null" {
			return l
		}
	}
	return ""
}

func runVariants(repo, prop string, seed int64) []variantResult {
	vs := loadVariants()
	var rel []variant
	for _, v := range vs {
		if v.relevant(prop) {
			rel = append(rel, v)
		}
	}
	rnd := rand.New(rand.NewSource(seed))
	rnd.Shuffle(len(rel), func(i, j int) { rel[i], rel[j] = rel[j], rel[i] })
	results := make([]variantResult, len(rel))
	sem := make(chan struct{}, 12)
	var wg sync.WaitGroup
	for i, v := range rel {
		wg.Add(1)
		go func(i int, v variant) {
			defer wg.Done()
			sem <- struct{}{}
			defer func() { <-sem }()
			results[i] = analyseVariant(repo, v, prop)
		}(i, v)
	}
	wg.Wait()
	sort.Slice(results, func(i, j int) bool { return results[i].Variant < results[j].Variant })
	return results
}

func thoroughImpl(prog *Program, p *Property, c *Ctx, seed int64, extra map[string]interface{}) {
	start := time.Now()
	// (a) other build configurations
	cfg := map[string]interface{}{}
	base := verdictMap(c)
	for _, alt := range []struct {
		name string
		opt  loadOptions
		arm  bool
	}{{"GOARCH=386", loadOptions{GOARCH: "386"}, true}, {"with _test.go files", loadOptions{Tests: true}, false}} {
		ap, err := load(prog.Repo, alt.opt)
		if err != nil {
			cfg[alt.name] = "load failed: " + err.Error()
			if alt.arm {
				c.cur = &p.Rules[0]
				c.undecided("-", "build configuration "+alt.name, "-", "cannot load the repository under "+alt.name+": "+err.Error())
			}
			continue
		}
		ac, perr := runProperty(ap, p)
		if perr != nil {
			cfg[alt.name] = "analyser failure: " + perr.Error()
			continue
		}
		am := verdictMap(ac)
		var diffs []string
		for k, v := range am {
			if base[k] != v {
				diffs = append(diffs, k+": "+string(base[k])+" -> "+string(v))
			}
		}
		for k, v := range base {
			if _, ok := am[k]; !ok {
				diffs = append(diffs, k+": "+string(v)+" -> (absent)")
			}
		}
		sort.Strings(diffs)
		cfg[alt.name] = map[string]interface{}{"obligations": len(am), "verdict_differences": diffs, "functions": len(ap.SrcFunc)}
		if alt.arm {
			// a violation that exists only in that configuration is a violation of the repository
			for _, o := range ac.Obls {
				if (o.Verdict == Violated || o.Verdict == Undecided) && base[o.Key()] != o.Verdict {
					o.Construct = "[" + alt.name + "] " + o.Construct
					c.Obls = append(c.Obls, o)
				}
			}
		}
	}
	extra["build_configurations"] = cfg
	if os.Getenv("RESTCHECK_TIMING") != "" {
		fmt.Fprintf(os.Stderr, "timing: build configurations %.1fs\n", time.Since(start).Seconds())
	}

	// (b) sensitivity suite
	results := runVariants(prog.Repo, p.ID, seed)
	counts := map[string]int{}
	var fails []string
	for _, r := range results {
		counts[r.Outcome]++
		if r.Outcome == "missed" || r.Outcome == "alarmed" {
			fails = append(fails, r.Variant+": "+r.Outcome+" "+r.Detail)
			fmt.Printf("SELFTEST-FAIL property=%s variant=%s outcome=%s %s\n", p.ID, r.Variant, r.Outcome, r.Detail)
		}
	}
	extra["sensitivity_suite"] = map[string]interface{}{
		"variants_killed":   counts["killed"],
		"variants_missed":   counts["missed"],
		"benign_silent":     counts["silent"],
		"benign_alarmed":    counts["alarmed"],
		"variants_skipped":  counts["skipped"],
		"results":           results,
		"note":              "a failed expectation is a defect of the checker, not of /repo: it is reported as SELFTEST-FAIL and never changes the exit status",
		"expectation_fails": fails,
	}

	if os.Getenv("RESTCHECK_TIMING") != "" {
		fmt.Fprintf(os.Stderr, "timing: sensitivity suite done at %.1fs\n", time.Since(start).Seconds())
		for _, r := range results {
			fmt.Fprintf(os.Stderr, "timing:   %-40s %-8s %.1fs\n", r.Variant, r.Outcome, r.Seconds)
		}
	}
	// (c) cross-reference lints (recorded only)
	extra["lint_cross_reference"] = lintCrossReference(prog)
	extra["thorough_wall_s"] = time.Since(start).Seconds()
}

func verdictMap(c *Ctx) map[string]Verdict {
	m := map[string]Verdict{}
	for _, o := range c.Obls {
		if o.Verdict != Noted {
			m[o.Key()] = o.Verdict
		}
	}
	return m
}

func lintCrossReference(prog *Program) map[string]interface{} {
	out := map[string]interface{}{}
	run := func(name string, args ...string) {
		if _, err := exec.LookPath(args[0]); err != nil {
			out[name] = "tool not found"
			return
		}
		cmd := exec.Command(args[0], args[1:]...)
		cmd.Dir = prog.Repo
		cmd.Env = append(os.Environ(), "GOFLAGS=-mod=mod", "GOPROXY=off", "GOSUMDB=off", "GOTOOLCHAIN=local", "GOWORK=off")
		done := make(chan struct{})
		var b []byte
		go func() { b, _ = cmd.CombinedOutput(); close(done) }()
		select {
		case <-done:
		case <-time.After(90 * time.Second):
			if cmd.Process != nil {
				cmd.Process.Kill()
			}
			out[name] = "timed out"
			return
		}
		lines := strings.Split(strings.TrimSpace(string(b)), "\n")
		var keep []string
		for _, l := range lines {
			if l != "" && !strings.HasPrefix(l, "#") && !strings.Contains(l, "_test.go") {
				keep = append(keep, l)
			}
		}
		if len(keep) > 25 {
			keep = append(keep[:25], fmt.Sprintf("... %d more", len(keep)-25))
		}
		out[name] = map[string]interface{}{"findings": len(keep), "lines": keep}
	}
	run("go vet", "go", "vet", "./...")
	run("staticcheck", "staticcheck", "./...")
	run("errcheck", "errcheck", "./...")
	out["note"] = "generic linters give no verdict on any property; recorded as a cross-reference only"
	return out
}

// doSelftest runs the sensitivity suite for one property (or all) and exits non-zero on a failed expectation.
func doSelftest(prop string, seed int64) int {
	ids := []string{prop}
	if prop == "" || prop == "all" {
		ids = sortedIDs()
	}
	rc := 0
	for _, id := range ids {
		if _, ok := registry[id]; !ok {
			fmt.Println("unknown property", id)
			return 2
		}
		results := runVariants(defaultRepo(), id, seed)
		counts := map[string]int{}
		for _, r := range results {
			counts[r.Outcome]++
			if r.Outcome == "missed" || r.Outcome == "alarmed" {
				fmt.Printf("SELFTEST-FAIL property=%s variant=%s outcome=%s reported=%v %s\n", id, r.Variant, r.Outcome, r.Reported, r.Detail)
				rc = 1
			}
		}
		fmt.Printf("%s selftest: killed=%d missed=%d benign-silent=%d benign-alarmed=%d skipped=%d\n", id, counts["killed"], counts["missed"], counts["silent"], counts["alarmed"], counts["skipped"])
	}
	return rc
}
