package main

func thoroughImpl(prog *Program, p *Property, c *Ctx, seed int64, extra map[string]interface{}) {}

func doSelftest(prop string, seed int64) int { return 0 }
