package main

import (
	"go/token"
	"go/types"

	"golang.org/x/tools/go/ssa"
)

// C10.g. The deferred recover closure runs for a panic raised at ANY point after its registration, also before the
// dispatching function has assigned the variables it declares. A dereference, in the closure, of a variable of the
// dispatching function that still holds nil at some crash point is a second panic, raised after recover() has
// consumed the first: the recover handler is not called (or its 500 is followed by a panic that escapes Dispatch).
//
// Decided: for every dereference in the closure (field address or load through a pointer, method call on an
// interface, call of a func value, type assertion without comma-ok on the recovered value) whose operand is read
// from a variable captured from the dispatching function: some non-nil store to the variable dominates the defer
// statement, or the dereference lies under `variable != nil` in the closure.

func nilable(t types.Type) bool {
	switch t.Underlying().(type) {
	case *types.Pointer, *types.Interface, *types.Signature, *types.Map:
		return true
	}
	return false
}

// capturedCell: v is a load of a free variable of cl that is bound to a local variable cell of the parent.
func capturedCell(p *Program, cl *ssa.Function, v ssa.Value) (*ssa.FreeVar, *ssa.Alloc) {
	u, ok := strip(v).(*ssa.UnOp)
	if !ok || u.Op != token.MUL {
		return nil, nil
	}
	fv, ok := u.X.(*ssa.FreeVar)
	if !ok {
		return nil, nil
	}
	idx := -1
	for k, f := range cl.FreeVars {
		if f == fv {
			idx = k
		}
	}
	if idx < 0 || cl.Parent() == nil {
		return nil, nil
	}
	var cell *ssa.Alloc
	eachInstr(cl.Parent(), func(i ssa.Instruction) {
		if mc, ok := i.(*ssa.MakeClosure); ok && mc.Fn == ssa.Value(cl) && idx < len(mc.Bindings) {
			if a, ok := mc.Bindings[idx].(*ssa.Alloc); ok {
				cell = a
			}
		}
	})
	return fv, cell
}

func ruleC10g(c *Ctx) {
	p := c.P
	ds, _ := findDispatchers(p)
	n := 0
	for _, d := range ds {
		fn := d.Fn
		eachInstr(fn, func(i ssa.Instruction) {
			df, ok := i.(*ssa.Defer)
			if !ok {
				return
			}
			cl := deferredFunc(p, df)
			if cl == nil || callsRecover(cl) == nil {
				return
			}
			n++
			name := p.fname(cl)
			cfacts := factsAt(cl)
			type deref struct {
				at   ssa.Instruction
				base ssa.Value
				what string
			}
			var ds []deref
			eachInstr(cl, func(j ssa.Instruction) {
				switch x := j.(type) {
				case *ssa.FieldAddr:
					ds = append(ds, deref{x, x.X, "field " + fieldOfAddr(x).Name() + " read through"})
				case *ssa.UnOp:
					if x.Op == token.MUL {
						if _, isFV := x.X.(*ssa.FreeVar); !isFV {
							if _, isA := x.X.(*ssa.Alloc); !isA {
								if _, isFA := x.X.(*ssa.FieldAddr); !isFA {
									ds = append(ds, deref{x, x.X, "load through"})
								}
							}
						}
					}
				case *ssa.TypeAssert:
					if !x.CommaOk {
						ds = append(ds, deref{x, nil, "type assertion without comma-ok on " + x.X.Name()})
					}
				}
				if cc := callCommon(j); cc != nil {
					if cc.IsInvoke() {
						ds = append(ds, deref{j, cc.Value, "method " + cc.Method.Name() + " called on"})
					}
				}
			})
			checked := 0
			for _, dr := range ds {
				if dr.base == nil {
					// x.(T) panics when the dynamic type differs: the recovered value has any type
					checked++
					c.bad(name, "nothing in the recover closure panics on its own: "+dr.what, p.ipos(dr.at),
						"a type assertion without comma-ok in the deferred recover closure panics for a panic value of another type, after recover() has consumed the original panic: the recover handler's 500 is lost or followed by an escaping panic")
					continue
				}
				fv, cell := capturedCell(p, cl, dr.base)
				if cell == nil || !nilable(cell.Type().(*types.Pointer).Elem()) {
					continue
				}
				checked++
				construct := "captured variable " + fv.Name() + " is not nil where the recover closure dereferences it"
				// (1) a non-nil store dominates the defer statement
				initialised := false
				for _, st := range p.cellStores(cell) {
					if st.Parent() == fn && instrDominates(st, df) && !isNilConst(st.Val) {
						initialised = true
					}
				}
				// (2) the dereference lies under `variable != nil`
				guarded := false
				for f := range cfacts[dr.at.Block()] {
					bo, ok := f.Cond.(*ssa.BinOp)
					if !ok || !isNilConst(bo.Y) {
						continue
					}
					if fv2, _ := capturedCell(p, cl, bo.X); fv2 != fv {
						continue
					}
					if (bo.Op == token.NEQ && f.Pol) || (bo.Op == token.EQL && !f.Pol) {
						guarded = true
					}
				}
				c.check(initialised || guarded, name, construct, p.ipos(dr.at),
					"the variable holds a non-nil value from before the defer statement, or the dereference is under a nil test",
					dr.what+" "+fv.Name()+", a variable of "+p.fname(fn)+" that is still nil when a panic is raised before its assignment (or stays nil when routing failed): the closure panics again after recover() consumed the first panic, the recover handler is not called and the new panic escapes")
			}
			if checked == 0 {
				c.triv(name, "nothing in the recover closure panics on its own", p.pos(cl.Pos()), "the closure dereferences no variable of the dispatching function that can be nil")
			}
		})
	}
	if n == 0 {
		c.undecided("-", "deferred recover closure", "-", "not found")
	}
}
