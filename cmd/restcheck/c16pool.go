package main

import (
	"go/types"
	"strings"

	"golang.org/x/tools/go/ssa"
)

// Pooled byte containers (C16.g = C19.h). An object that holds bytes of a request (bytes.Buffer, strings.Builder,
// []byte, bufio reader/writer) and goes through a sync.Pool is empty whenever the next request reads it: either every
// Put of the pool is preceded, in its function, by Reset()/Truncate(0) of the object that is put (a re-slice to [:0]
// for byte slices), or every Get of the pool resets the object before its first other use. A Put on an error path
// that skips the Reset leaves the bytes of a broken request in front of the next request's body.

func byteContainer(t types.Type) bool {
	s := t.String()
	for _, n := range []string{"bytes.Buffer", "strings.Builder", "bufio.Writer", "bufio.Reader", "bufio.ReadWriter"} {
		if strings.HasSuffix(s, n) {
			return true
		}
	}
	if pt, ok := t.Underlying().(*types.Pointer); ok {
		return byteContainer(pt.Elem())
	}
	if sl, ok := t.Underlying().(*types.Slice); ok {
		if b, ok := sl.Elem().Underlying().(*types.Basic); ok && b.Kind() == types.Byte {
			return true
		}
	}
	return false
}

type poolKey struct {
	g *ssa.Global
	f *types.Var
}

func poolOf(v ssa.Value) (poolKey, bool) {
	switch x := v.(type) {
	case *ssa.Global:
		return poolKey{g: x}, true
	case *ssa.FieldAddr:
		return poolKey{f: fieldOfAddr(x)}, true
	case *ssa.UnOp: // a *sync.Pool kept in a variable or field
		return poolOf(x.X)
	}
	return poolKey{}, false
}

func isResetCall(i ssa.Instruction, obj ssa.Value, p *Program) bool {
	cc := callCommon(i)
	if cc == nil || len(cc.Args) == 0 {
		return false
	}
	n := calleeName(cc)
	if !(strings.HasSuffix(n, ").Reset") || strings.HasSuffix(n, ").Truncate")) {
		return false
	}
	if strings.HasSuffix(n, ").Truncate") {
		if k, ok := constInt(cc.Args[len(cc.Args)-1]); !ok || k != 0 {
			return false
		}
	}
	return p.sameVar(cc.Args[0], obj)
}

func rulePooledBytesClean(c *Ctx) {
	p := c.P
	type site struct {
		fn  *ssa.Function
		at  ssa.Instruction
		obj ssa.Value
	}
	puts := map[poolKey][]site{}
	gets := map[poolKey][]site{}
	for _, fn := range p.SrcFunc {
		eachInstr(fn, func(i ssa.Instruction) {
			cc := callCommon(i)
			if cc == nil {
				return
			}
			switch calleeName(cc) {
			case "(*sync.Pool).Put":
				k, ok := poolOf(cc.Args[0])
				if !ok {
					return
				}
				obj := strip(cc.Args[1])
				if byteContainer(obj.Type()) {
					puts[k] = append(puts[k], site{fn, i, obj})
				}
			case "(*sync.Pool).Get":
				k, ok := poolOf(cc.Args[0])
				if !ok {
					return
				}
				call, ok := i.(*ssa.Call)
				if !ok {
					return
				}
				for _, r := range referrers(call) {
					if ta, ok := r.(*ssa.TypeAssert); ok && byteContainer(ta.AssertedType) {
						var obj ssa.Value = ta
						if ta.CommaOk {
							for _, r2 := range referrers(ta) {
								if ex, ok := r2.(*ssa.Extract); ok && ex.Index == 0 {
									obj = ex
								}
							}
						}
						gets[k] = append(gets[k], site{fn, i, obj})
					}
				}
			}
		})
	}
	if len(puts) == 0 {
		c.triv("-", "pooled byte containers are empty on reuse", "-", "no byte container goes through a sync.Pool")
		return
	}
	for k, ps := range puts {
		// (A) every Get resets before any other use
		getsClean := len(gets[k]) > 0
		for _, g := range gets[k] {
			var reset ssa.Instruction
			eachInstr(g.fn, func(i ssa.Instruction) {
				if reset == nil && isResetCall(i, g.obj, p) && instrDominates(g.at, i) {
					reset = i
				}
			})
			if reset == nil {
				getsClean = false
				continue
			}
			// no other call on the object that the reset does not dominate
			eachInstr(g.fn, func(i ssa.Instruction) {
				cc := callCommon(i)
				if cc == nil || i == reset || i == g.at {
					return
				}
				for _, a := range callArgs(cc) {
					if p.sameVar(a, g.obj) && !instrDominates(reset, i) {
						getsClean = false
					}
				}
			})
		}
		for _, s := range ps {
			name := p.fname(s.fn)
			clean := false
			// a byte slice re-sliced to length 0
			if sl, ok := s.obj.(*ssa.Slice); ok && sl.Low == nil {
				if h, ok := constInt(sl.High); ok && h == 0 {
					clean = true
				}
			}
			eachInstr(s.fn, func(i ssa.Instruction) {
				if isResetCall(i, s.obj, p) && instrDominates(i, s.at) {
					clean = true
				}
			})
			c.check(clean || getsClean, name, "a byte container is empty when it goes back to the pool", p.ipos(s.at),
				"Reset()/Truncate(0) of the object dominates this Put (or every Get of the pool resets the object before using it)",
				"this Put returns the object to the pool without emptying it, and Get does not reset it either: the next request that takes it finds the bytes of this one in front of its own")
		}
	}
}
