package main

import (
	"go/types"
	"strings"

	"golang.org/x/tools/go/ssa"
)

// Pooled byte containers (C16.g = C19.h). An object that holds bytes of a request (bytes.Buffer, strings.Builder,
// []byte, bufio reader/writer) and goes through a sync.Pool is empty whenever the next request reads it: either every
// Put of the pool is preceded, in its function, by Reset()/Truncate(0) of the object that is put (a re-slice to [:0]
// for byte slices), or every Get of the pool resets the object before its first other use. A Put on an error path
// that skips the Reset leaves the bytes of a broken request in front of the next request's body.

func byteContainer(t types.Type) bool {
	s := t.String()
	for _, n := range []string{"bytes.Buffer", "strings.Builder", "bufio.Writer", "bufio.Reader", "bufio.ReadWriter"} {
		if strings.HasSuffix(s, n) {
			return true
		}
	}
	if pt, ok := t.Underlying().(*types.Pointer); ok {
		return byteContainer(pt.Elem())
	}
	if sl, ok := t.Underlying().(*types.Slice); ok {
		if b, ok := sl.Elem().Underlying().(*types.Basic); ok && b.Kind() == types.Byte {
			return true
		}
	}
	return false
}

type poolKey struct {
	g *ssa.Global
	f *types.Var
}

func poolOf(v ssa.Value) (poolKey, bool) {
	switch x := v.(type) {
	case *ssa.Global:
		return poolKey{g: x}, true
	case *ssa.FieldAddr:
		return poolKey{f: fieldOfAddr(x)}, true
	case *ssa.UnOp: // a *sync.Pool kept in a variable or field
		return poolOf(x.X)
	}
	return poolKey{}, false
}

func isResetCall(i ssa.Instruction, obj ssa.Value, p *Program) bool {
	cc := callCommon(i)
	if cc == nil || len(cc.Args) == 0 {
		return false
	}
	n := calleeName(cc)
	if !(strings.HasSuffix(n, ").Reset") || strings.HasSuffix(n, ").Truncate")) {
		return false
	}
	if strings.HasSuffix(n, ").Truncate") {
		if k, ok := constInt(cc.Args[len(cc.Args)-1]); !ok || k != 0 {
			return false
		}
	}
	return p.sameVar(cc.Args[0], obj)
}

func rulePooledBytesClean(c *Ctx) {
	p := c.P
	type site struct {
		fn  *ssa.Function
		at  ssa.Instruction
		obj ssa.Value
	}
	puts := map[poolKey][]site{}
	gets := map[poolKey][]site{}
	for _, fn := range p.SrcFunc {
		eachInstr(fn, func(i ssa.Instruction) {
			cc := callCommon(i)
			if cc == nil {
				return
			}
			switch calleeName(cc) {
			case "(*sync.Pool).Put":
				k, ok := poolOf(cc.Args[0])
				if !ok {
					return
				}
				obj := strip(cc.Args[1])
				if byteContainer(obj.Type()) {
					puts[k] = append(puts[k], site{fn, i, obj})
				}
			case "(*sync.Pool).Get":
				k, ok := poolOf(cc.Args[0])
				if !ok {
					return
				}
				call, ok := i.(*ssa.Call)
				if !ok {
					return
				}
				for _, r := range referrers(call) {
					if ta, ok := r.(*ssa.TypeAssert); ok && byteContainer(ta.AssertedType) {
						var obj ssa.Value = ta
						if ta.CommaOk {
							for _, r2 := range referrers(ta) {
								if ex, ok := r2.(*ssa.Extract); ok && ex.Index == 0 {
									obj = ex
								}
							}
						}
						gets[k] = append(gets[k], site{fn, i, obj})
					}
				}
			}
		})
	}
	if len(puts) == 0 {
		c.triv("-", "pooled byte containers are empty on reuse", "-", "no byte container goes through a sync.Pool")
		return
	}
	for k, ps := range puts {
		// (A) every Get resets before any other use
		getsClean := len(gets[k]) > 0
		for _, g := range gets[k] {
			var reset ssa.Instruction
			eachInstr(g.fn, func(i ssa.Instruction) {
				if reset == nil && isResetCall(i, g.obj, p) && instrDominates(g.at, i) {
					reset = i
				}
			})
			if reset == nil {
				getsClean = false
				continue
			}
			// no other call on the object that the reset does not dominate
			eachInstr(g.fn, func(i ssa.Instruction) {
				cc := callCommon(i)
				if cc == nil || i == reset || i == g.at {
					return
				}
				for _, a := range callArgs(cc) {
					if p.sameVar(a, g.obj) && !instrDominates(reset, i) {
						getsClean = false
					}
				}
			})
		}
		for _, s := range ps {
			name := p.fname(s.fn)
			clean := false
			// a byte slice re-sliced to length 0
			if sl, ok := s.obj.(*ssa.Slice); ok && sl.Low == nil {
				if h, ok := constInt(sl.High); ok && h == 0 {
					clean = true
				}
			}
			eachInstr(s.fn, func(i ssa.Instruction) {
				if isResetCall(i, s.obj, p) && instrDominates(i, s.at) {
					clean = true
				}
			})
			c.check(clean || getsClean, name, "a byte container is empty when it goes back to the pool", p.ipos(s.at),
				"Reset()/Truncate(0) of the object dominates this Put (or every Get of the pool resets the object before using it)",
				"this Put returns the object to the pool without emptying it, and Get does not reset it either: the next request that takes it finds the bytes of this one in front of its own")
		}
	}
}

// Pooled request objects (C19.i). A struct of the module that goes through a sync.Pool (a recycled *Request, *Response,
// FilterChain) comes back to the next request with whatever its fields held: every field has to be overwritten on the
// way in (in the function that Puts, before the Put) or on the way out (in the function that Gets, before the object
// is handed on). A field nobody resets - the attributes map of a pooled Request - is read by the next request.
func rulePooledStructsReset(c *Ctx) {
	p := c.P
	type site struct {
		fn  *ssa.Function
		at  ssa.Instruction
		obj ssa.Value
		st  *types.Struct
		tn  string
	}
	moduleStruct := func(t types.Type) (*types.Struct, string, bool) {
		pt, ok := t.Underlying().(*types.Pointer)
		if !ok {
			return nil, "", false
		}
		n, ok := pt.Elem().(*types.Named)
		if !ok || n.Obj().Pkg() == nil || !strings.HasPrefix(n.Obj().Pkg().Path(), modulePath) {
			return nil, "", false
		}
		st, ok := n.Underlying().(*types.Struct)
		return st, n.Obj().Name(), ok
	}
	puts := map[poolKey][]site{}
	gets := map[poolKey][]site{}
	for _, fn := range p.SrcFunc {
		eachInstr(fn, func(i ssa.Instruction) {
			cc := callCommon(i)
			if cc == nil {
				return
			}
			switch calleeName(cc) {
			case "(*sync.Pool).Put":
				k, ok := poolOf(cc.Args[0])
				if !ok {
					return
				}
				obj := strip(cc.Args[1])
				if st, tn, ok := moduleStruct(obj.Type()); ok {
					puts[k] = append(puts[k], site{fn, i, obj, st, tn})
				}
			case "(*sync.Pool).Get":
				k, ok := poolOf(cc.Args[0])
				if !ok {
					return
				}
				call, ok := i.(*ssa.Call)
				if !ok {
					return
				}
				for _, r := range referrers(call) {
					ta, ok := r.(*ssa.TypeAssert)
					if !ok {
						continue
					}
					st, tn, ok := moduleStruct(ta.AssertedType)
					if !ok {
						continue
					}
					var obj ssa.Value = ta
					if ta.CommaOk {
						for _, r2 := range referrers(ta) {
							if ex, ok := r2.(*ssa.Extract); ok && ex.Index == 0 {
								obj = ex
							}
						}
					}
					gets[k] = append(gets[k], site{fn, i, obj, st, tn})
				}
			}
		})
	}
	if len(puts) == 0 {
		c.triv("-", "pooled objects of the module are reset field by field", "-", "no struct of the module goes through a sync.Pool")
		return
	}
	// resetsField: in s.fn the field is overwritten (or the whole object, or the map cleared) at a point that
	// dominates `before` (Put side) / every return (Get side)
	resets := func(s site, idx int, putSide bool) bool {
		found := false
		eachInstr(s.fn, func(i ssa.Instruction) {
			if found {
				return
			}
			var hit bool
			switch x := i.(type) {
			case *ssa.Store:
				if fa, ok := x.Addr.(*ssa.FieldAddr); ok && fa.Field == idx && p.sameVar(fa.X, s.obj) {
					// not the old value written back
					self := false
					for _, src := range p.sources(x.Val, provDefault) {
						if u, ok := src.(*ssa.UnOp); ok {
							if fa2, ok := u.X.(*ssa.FieldAddr); ok && fa2.Field == idx && p.sameVar(fa2.X, s.obj) {
								self = true
							}
						}
					}
					hit = !self
				}
				if p.sameVar(x.Addr, s.obj) {
					hit = true // *obj = T{...}
				}
			case *ssa.Call:
				if isBuiltinCall(x, "clear") && len(x.Call.Args) == 1 {
					if u, ok := strip(x.Call.Args[0]).(*ssa.UnOp); ok {
						if fa, ok := u.X.(*ssa.FieldAddr); ok && fa.Field == idx && p.sameVar(fa.X, s.obj) {
							hit = true
						}
					}
				}
			}
			if !hit {
				return
			}
			if putSide {
				found = instrDominates(i, s.at)
				return
			}
			if !instrDominates(s.at, i) {
				return
			}
			all := true
			for _, r := range returnsOf(s.fn) {
				if !instrDominates(i, r) {
					all = false
				}
			}
			found = all
		})
		return found
	}
	for k, ps := range puts {
		st, tn := ps[0].st, ps[0].tn
		for idx := 0; idx < st.NumFields(); idx++ {
			f := st.Field(idx)
			onPut := true
			for _, s := range ps {
				if !resets(s, idx, true) {
					onPut = false
				}
			}
			onGet := len(gets[k]) > 0
			for _, g := range gets[k] {
				if !resets(g, idx, false) {
					onGet = false
				}
			}
			c.check(onPut || onGet, p.fname(ps[0].fn), "field "+f.Name()+" of the pooled "+tn+" is reset", p.ipos(ps[0].at),
				"overwritten before every Put of the pool or after every Get",
				"a "+tn+" goes back to the pool and is handed to a later request with its "+f.Name()+" as the previous request left it: neither the function that puts it back nor the one that takes it out overwrites the field")
		}
	}
}
