package main

import (
	"go/token"
	"go/types"
	"sort"

	"golang.org/x/tools/go/ssa"
)

func init() {
	register(&Property{
		ID:    "C12",
		Title: "Services and routes can change while requests are being served",
		Decided: "C12.a every field of a shared type that Add/Remove/Route/RemoveRoute store into is accessed, on the request and mutator paths, only while holding the lock under which it is written (the field set and its lock are re-derived from the code on every run); " +
			"C12.b route selection and the load of the service list lie in one critical section; C12.c a selector returns only pointers into storage allocated during that call, never into a WebService's route slice; " +
			"C12.d the lock-order graph is acyclic and has no self edge; C12.e no channel operation or http serving call happens while a lock is held. C12.g package variables written on the mutator or request path are written under a package-level lock or through sync/atomic; C12.h = C11.c (Remove's rebuild cannot register a pattern twice). C12.i = C10.c (no lock taken on the request path survives a panic of user code under it).",
		NotDecided:  "that every request is answered according to a state that existed during the request beyond C12.b; races inside http.ServeMux (it has its own mutex); accesses to the exported Container.ServeMux field from user code; lock instances are not distinguished (field-based).",
		Assumptions: []string{"sync.RWMutex provides mutual exclusion between Lock and RLock/Lock sections", "http.ServeMux is internally synchronised"},
		Rules: []Rule{
			{ID: "C12.a", Template: "T-LOCK", Required: true,
				Doc: "Every load and store of a mutable-while-serving field (a field of a shared type that code reachable from Add/Remove/Route/RemoveRoute stores into on a non-fresh object) in functions reachable from request roots or mutator roots holds that field's lock (write mode for stores). An unlocked access is a data race with a concurrent mutator.",
				Run: ruleC12a},
			{ID: "C12.b", Template: "T-LOCK", Required: true,
				Doc: "The invoke of RouteSelector.SelectRoute and the load of the service list passed to it lie in one critical section of the list's lock, so a request is routed against one registration state that existed during the request.",
				Run: ruleC12b},
			{ID: "C12.c", Template: "T-FRESH", Required: true,
				Doc: "A *Route that escapes from selection code is the address of an element of a slice allocated during that call (a per-request copy), never of WebService.routes or of the slice Routes() returns (the shared array when the service is not dynamic). The dispatcher dereferences the selected route after the lock is released; only a private copy makes those reads race-free and keeps one request's route invisible to others.",
				Run: ruleC12c},
			{ID: "C12.d", Template: "T-LOCK", Required: true,
				Doc: "The lock-order graph over lock fields (edge L1->L2 when L2 is acquired, possibly in a callee, while L1 is held) is acyclic and has no self edge; sync.RWMutex read locks are not re-entrant once a writer waits, so a cycle or self edge is a deadlock under some schedule.",
				Run: ruleC12d},
			{ID: "C12.e", Template: "T-LOCK", Required: true,
				Doc: "While a container or service lock is held there is no channel operation, no http serving call and no request-processing callback (filter, route function, plain handler, recover or service-error handler), directly or in a callee: a slow request would otherwise stall Add/Remove (and every request behind the waiting writer), and a filter that re-enters a locking API (OPTIONSFilter -> RegisteredWebServices) deadlocks behind a queued writer. Route conditions and the router itself run under the read lock by design and are not in this set.",
				Run: ruleC12e},
			{ID: "C12.f", Template: "T-LOCK", Required: true,
				Doc: "Read-modify-write atomicity: in a function that stores a mutable-while-serving field, every read of that field - direct or through a callee such as the copying accessor - happens while the field's lock is held in write mode. Filtering a snapshot taken under the read lock and storing the result under the write lock is race-free but loses a concurrent Route().",
				Run: ruleC12f},
			{ID: "C12.g", Template: "T-LOCK", Required: true, Run: ruleGlobalsUnderInstanceLocks,
				Doc: "Package-level variables written on the mutator or request path (plain stores; sync/atomic calls are not stores) are written under a package-level lock. A lock that is a field protects one Container or WebService; Route() on two different services holds two different locks, so a shared counter written under 'the service lock' is a data race."},
			{ID: "C12.i", Template: "T-LOCK", Required: true, Run: ruleC10c,
				Doc: "'Can change while requests are being served': a lock taken on the request path is released on every exit, also when user code under it panics (same obligations as C10.c). A read lock left behind by a panicking route condition blocks the next Add/Remove forever, and with it every later request."},
			{ID: "C12.h", Template: "T-SIBLING", Required: true, Run: ruleC11c,
				Doc: "'No panic' while services are added and removed: Remove rebuilds the ServeMux from the remaining services, so the duplicate-pattern guard must recognise every registered pattern (same obligations as C11.c); otherwise the rebuild registers a pattern twice, http.ServeMux panics inside Remove and services nobody asked to change disappear."},
		},
	})
}

// exemptions, one named field each with its reason
var c12InitBeforePublish = map[string]string{
	"WebService.rootPath": "written by Add through service.Path(\"/\") on a service that is not yet in the container's list (initialisation before publication, under the container lock)",
	"WebService.pathExpr": "same as rootPath: compiled by Path() before the service is published",
}

// a field that may be read without its lock where this boolean field of the same object was tested false
var c12StaticWhenFalse = map[string]string{
	"WebService.routes": "dynamicRoutes", // the property only promises concurrent route changes on services with dynamic routes enabled
}

type mutableField struct {
	Field  *types.Var
	Owner  string
	Lock   *types.Var
	Stores []FieldAccess
}

// mutableFields derives the mutable-while-serving fields and their locks.
func mutableFields(p *Program, li *LockInfo) []*mutableField {
	roles := p.Roles()
	shared := p.sharedTypes()
	byField := map[*types.Var]*mutableField{}
	for _, fn := range p.SrcFunc {
		if !roles.MutatorPath[fn] {
			continue
		}
		for _, a := range p.fieldAccesses(fn) {
			if a.Kind != "store" || !shared[a.Owner] || p.freshBase(a.Addr) {
				continue
			}
			// the mutex fields themselves are not data
			if isNamed(a.Field.Type(), "sync", "RWMutex") || isNamed(a.Field.Type(), "sync", "Mutex") {
				continue
			}
			m := byField[a.Field]
			if m == nil {
				m = &mutableField{Field: a.Field, Owner: a.Owner}
				byField[a.Field] = m
			}
			m.Stores = append(m.Stores, a)
		}
	}
	var out []*mutableField
	for _, m := range byField {
		var common lockSet
		for k, s := range m.Stores {
			ls := lockSet{}
			for l, mode := range li.heldAt(s.Instr) {
				if mode == lockW {
					ls[l] = mode
				}
			}
			if k == 0 {
				common = ls
			} else {
				common = meet(common, ls)
			}
		}
		var locks []*types.Var
		for l := range common {
			locks = append(locks, l)
		}
		sort.Slice(locks, func(i, j int) bool { return locks[i].Name() < locks[j].Name() })
		if len(locks) > 0 {
			m.Lock = locks[0]
		}
		out = append(out, m)
	}
	sort.Slice(out, func(i, j int) bool {
		return out[i].Owner+"."+out[i].Field.Name() < out[j].Owner+"."+out[j].Field.Name()
	})
	return out
}

func ruleC12a(c *Ctx) {
	p := c.P
	li := p.lockInfo()
	roles := p.Roles()
	fields := mutableFields(p, li)
	c.count("mutable_fields", len(fields))
	for _, m := range fields {
		key := m.Owner + "." + m.Field.Name()
		if why, ok := c12InitBeforePublish[key]; ok {
			c.note("-", "field "+key+" exempt", "-", why)
			continue
		}
		if m.Lock == nil {
			for _, s := range m.Stores {
				c.bad(p.fname(s.Fn), "store to "+key+" without a common write lock", p.ipos(s.Instr),
					"a field of a shared type is written on the mutator path (Add/Remove/Route/RemoveRoute) with no lock common to all its writers: concurrent requests race with it (held here: "+lockSetString(li.heldAt(s.Instr))+")")
			}
			continue
		}
		staticFlag := c12StaticWhenFalse[key]
		for _, fn := range p.SrcFunc {
			if !roles.RequestPath[fn] && !roles.MutatorPath[fn] {
				continue
			}
			if fn.Name() == "init" || (fn.Parent() == nil && len(fn.Name()) > 4 && fn.Name()[:5] == "init#") {
				continue
			}
			var facts map[*ssa.BasicBlock]map[condFact]bool
			for _, a := range p.fieldAccesses(fn) {
				if a.Field != m.Field {
					continue
				}
				construct := a.Kind + " of " + key
				if p.freshBase(a.Addr) {
					c.triv(p.fname(fn), construct+" on a fresh object", p.ipos(a.Instr), "the object is not yet visible to any other goroutine")
					continue
				}
				held := li.heldAt(a.Instr)
				mode := held[m.Lock]
				need := lockR
				if a.Kind != "load" {
					need = lockW
				}
				if mode >= need {
					c.ok(p.fname(fn), construct+" under "+m.Lock.Name(), p.ipos(a.Instr), "lockset here: "+lockSetString(held))
					continue
				}
				if staticFlag != "" && a.Kind == "load" {
					if facts == nil {
						facts = factsAt(fn)
					}
					if testedFalse(facts[a.Instr.Block()], a.Addr.X, staticFlag) {
						c.ok(p.fname(fn), construct+" where "+staticFlag+" is false", p.ipos(a.Instr), "only reached when "+staticFlag+" was tested false on the same object: the property promises concurrent changes only for dynamic services")
						continue
					}
				}
				c.bad(p.fname(fn), construct+" without "+m.Lock.Name(), p.ipos(a.Instr),
					key+" is replaced under "+m.Lock.Name()+" by the mutator path but accessed here holding "+lockSetString(held)+": data race with a concurrent Add/Remove/Route/RemoveRoute")
			}
		}
	}
}

// testedFalse: the facts contain "load of field flag of the same base object is false".
func testedFalse(facts map[condFact]bool, base ssa.Value, flag string) bool {
	for f := range facts {
		if f.Pol {
			continue
		}
		b, fld, ok := fieldLoad(strip(f.Cond))
		if ok && fld.Name() == flag && strip(b) == strip(base) {
			return true
		}
	}
	return false
}

// selectRouteInvokes finds the invokes of RouteSelector.SelectRoute.
func selectRouteInvokes(p *Program) []*ssa.Call {
	var out []*ssa.Call
	for _, fn := range p.SrcFunc {
		eachInstr(fn, func(i ssa.Instruction) {
			if call, ok := i.(*ssa.Call); ok && call.Call.IsInvoke() && call.Call.Method.Name() == "SelectRoute" &&
				isRestfulNamed(call.Call.Value.Type(), "RouteSelector") {
				out = append(out, call)
			}
		})
	}
	return out
}

func ruleC12b(c *Ctx) {
	p := c.P
	li := p.lockInfo()
	for _, call := range selectRouteInvokes(p) {
		fn := call.Parent()
		if delegatingSelector(p, topFunc(fn)) {
			continue // a wrapper hands on the list it was given; the caller's critical section is what counts
		}
		name := p.fname(fn)
		arg := strip(call.Call.Args[0])
		// a list nobody can change under the router's feet: a copy made for the purpose, a snapshot field that is kept
		// in step (C11.l), replaced as a whole and never written in place (read under its lock), or what a module
		// accessor returns if all it returns is of these kinds
		var safeList func(v ssa.Value, depth int) bool
		safeList = func(v ssa.Value, depth int) bool {
			n := 0
			for _, src := range p.sources(v, provOpt{ThroughCells: true}) {
				src = strip(src)
				n++
				switch x := src.(type) {
				case *ssa.MakeSlice:
					continue
				case *ssa.UnOp:
					if fa, isFA := x.X.(*ssa.FieldAddr); isFA && x.Op == token.MUL {
						f := fieldOfAddr(fa)
						held := false
						for _, m := range mutableFields(p, li) {
							if m.Field == f && m.Lock != nil && li.heldAt(x)[m.Lock] != lockNone {
								held = true
							}
						}
						if held && p.derivedState().inStepBy[stateLoc{f: f}] && p.replacedAsAWhole(f) {
							continue
						}
					}
				case *ssa.Call:
					if g := x.Call.StaticCallee(); g != nil && p.inModule(g) && g.Blocks != nil && depth < 2 {
						all := true
						for _, r := range returnsOf(g) {
							if len(r.Results) != 1 || !safeList(r.Results[0], depth+1) {
								all = false
							}
						}
						if all {
							continue
						}
					}
				}
				return false
			}
			return n > 0
		}
		if _, isDirect := arg.(*ssa.UnOp); safeList(arg, 0) && (!isDirect || li.heldAt(call)[nil] == lockNone) {
			if _, f0, isLoad := fieldLoad(arg); !isLoad || f0.Name() != "webServices" {
				c.ok(name, "SelectRoute on a snapshot or private copy of the service list", p.ipos(call), "the list is a copy made for this call, or a snapshot that every registration operation replaces as a whole and nobody writes in place, read under the lock")
				continue
			}
		}
		_, fld, ok := fieldLoad(arg)
		if !ok {
			// a private copy of the list, made by an accessor that reads the field under its lock only
			if ac, isCall := arg.(*ssa.Call); isCall && ac.Call.StaticCallee() != nil && p.inModule(ac.Call.StaticCallee()) {
				g := ac.Call.StaticCallee()
				underLock, copies, nload := true, true, 0
				for _, a := range p.fieldAccesses(g) {
					if a.Kind != "load" {
						continue
					}
					for _, m := range mutableFields(p, li) {
						if m.Field == a.Field {
							nload++
							if li.heldAt(a.Instr)[m.Lock] == lockNone {
								underLock = false
							}
							for _, r := range returnsOf(g) {
								for _, res := range r.Results {
									if strip(res) == ssa.Value(a.Instr.(*ssa.UnOp)) {
										copies = false
									}
								}
							}
						}
					}
				}
				if nload > 0 && underLock && copies {
					c.ok(name, "SelectRoute on a private copy of the service list", p.ipos(call), "the list is copied by "+p.fname(g)+" while it holds the lock; the selection runs on the copy")
					continue
				}
			}
			// a snapshot: a list kept in step with the service list (C11.l) that is replaced as a whole and never written
			// in place, loaded under the lock; or a copy made in this function; or either of the two
			{
				okAll, nsrc := true, 0
				for _, src := range p.sources(arg, provOpt{ThroughCells: true}) {
					src = strip(src)
					nsrc++
					switch x := src.(type) {
					case *ssa.MakeSlice:
						continue
					case *ssa.UnOp:
						if fa, isFA := x.X.(*ssa.FieldAddr); isFA && x.Op == token.MUL {
							f := fieldOfAddr(fa)
							held := false
							for _, m := range mutableFields(p, li) {
								if m.Field == f && m.Lock != nil && li.heldAt(x)[m.Lock] != lockNone {
									held = true
								}
							}
							if held && p.derivedState().inStepBy[stateLoc{f: f}] && p.replacedAsAWhole(f) {
								continue
							}
						}
					}
					okAll = false
				}
				if okAll && nsrc > 0 {
					c.ok(name, "SelectRoute on a snapshot of the service list", p.ipos(call), "the list is a copy that every registration operation replaces as a whole and nobody writes in place, read under the lock")
					continue
				}
			}
			c.undecided(name, "SelectRoute service-list argument", p.ipos(call), "the service list handed to SelectRoute is not a direct load of a container field; cannot relate it to a critical section")
			continue
		}
		load := arg.(ssa.Instruction)
		// which lock protects that field?
		var lock *types.Var
		for _, m := range mutableFields(p, li) {
			if m.Field == fld {
				lock = m.Lock
			}
		}
		if lock == nil {
			c.bad(name, "SelectRoute on "+fld.Name()+" with no protecting lock", p.ipos(call), "the service list has no lock common to its writers")
			continue
		}
		hl, hc := li.heldAt(load)[lock], li.heldAt(call)[lock]
		if hl == lockNone || hc == lockNone {
			c.bad(name, "SelectRoute and the load of "+fld.Name()+" under "+lock.Name(), p.ipos(call),
				"lock not held at the load ("+lockSetString(li.heldAt(load))+") or at the selection ("+lockSetString(li.heldAt(call))+"): the request is routed against a list that is being replaced")
			continue
		}
		released := false
		eachInstr(fn, func(i ssa.Instruction) {
			if op, ok := lockOpOf(i); ok && !op.Acquire && op.Lock == lock {
				if _, isDefer := i.(*ssa.Defer); isDefer {
					return
				}
				if canReach(load, i) && canReach(i, call) {
					released = true
				}
			}
		})
		c.check(!released, name, "SelectRoute and the load of "+fld.Name()+" in one critical section", p.ipos(call),
			"both hold "+lock.Name()+" and no release lies between them",
			"the lock is released between loading the list and selecting on it")
		// the release must be deferred: user conditions and routers run inside
		deferred := false
		eachInstr(fn, func(i ssa.Instruction) {
			if op, ok := lockOpOf(i); ok && !op.Acquire && op.Lock == lock {
				if _, isDefer := i.(*ssa.Defer); isDefer {
					deferred = true
				}
			}
		})
		_ = deferred // decided under C10.c
	}
}

// ---------------------------------------------------------------------------
// fresh slices

type freshCtx struct {
	p       *Program
	cg      *CallGraph
	taken   map[*ssa.Function]bool
	visited map[ssa.Value]bool
	why     string
}

func (f *freshCtx) fail(why string) bool {
	if f.why == "" {
		f.why = why
	}
	return false
}

// freshSlice decides whether slice value v denotes storage allocated during the current
// request-path activation (so pointers into it are private to this request).
func (f *freshCtx) freshSlice(v ssa.Value, depth int) bool {
	p := f.p
	v = strip(v)
	if f.visited[v] {
		return true // coinductive: cycles through loops/appends add nothing new
	}
	f.visited[v] = true
	switch x := v.(type) {
	case *ssa.MakeSlice:
		return true
	case *ssa.Const:
		return x.Value == nil
	case *ssa.Phi:
		for _, e := range x.Edges {
			if !f.freshSlice(e, depth) {
				return false
			}
		}
		return true
	case *ssa.Slice:
		if a, ok := x.X.(*ssa.Alloc); ok {
			_ = a
			return true
		}
		return f.freshSlice(x.X, depth)
	case *ssa.Call:
		if isBuiltinCall(x, "append") {
			return f.freshSlice(x.Call.Args[0], depth)
		}
		if cal := x.Call.StaticCallee(); cal != nil && p.inModule(cal) && cal.Blocks != nil {
			if depth >= 3 {
				return f.fail("inlining bound reached at " + p.fname(cal))
			}
			for _, r := range returnsOf(cal) {
				if len(r.Results) < 1 {
					continue
				}
				// results of slice type only
				for _, res := range r.Results {
					if _, ok := res.Type().Underlying().(*types.Slice); ok {
						if !f.freshSlice(res, depth+1) {
							return f.fail(p.fname(cal) + " may return shared storage (" + f.why + ")")
						}
					}
				}
			}
			return true
		}
		return f.fail("result of " + shortCallee(&x.Call) + " is not known to be fresh")
	case *ssa.UnOp:
		if x.Op != token.MUL {
			return f.fail("unrecognised " + x.String())
		}
		if roots := p.cellRoots(x.X); len(roots) > 0 {
			for _, r := range roots {
				for _, s := range p.cellStores(r) {
					if !f.freshSlice(s.Val, depth) {
						return false
					}
				}
			}
			return true
		}
		if fa, ok := x.X.(*ssa.FieldAddr); ok {
			// field of an object allocated here: all stores to that field must be fresh
			if !p.isFreshObject(fa.X) {
				return f.fail("load of field " + ownerOfFieldAddr(fa) + "." + fieldOfAddr(fa).Name() + " of a shared object")
			}
			fld := fieldOfAddr(fa)
			okAll := true
			for _, fn := range withClosures(topFunc(x.Parent())) {
				eachInstr(fn, func(i ssa.Instruction) {
					if s, ok := i.(*ssa.Store); ok {
						if fa2, ok := s.Addr.(*ssa.FieldAddr); ok && fieldOfAddr(fa2) == fld {
							if !f.freshSlice(s.Val, depth) {
								okAll = false
							}
						}
					}
				})
			}
			return okAll
		}
		return f.fail("load through " + x.X.String())
	case *ssa.Parameter:
		fn := x.Parent()
		if depth >= 3 {
			return f.fail("inlining bound reached at parameter " + x.Name() + " of " + p.fname(fn))
		}
		if o := fn.Object(); (o != nil && o.Exported()) || f.taken[fn] {
			return f.fail("parameter " + x.Name() + " of " + p.fname(fn) + " (callers unknown)")
		}
		idx := -1
		for k, prm := range fn.Params {
			if prm == x {
				idx = k
			}
		}
		n := 0
		for _, e := range f.cg.In[fn] {
			if e.Kind != EdgeStatic && e.Kind != EdgeClosure {
				return f.fail("parameter " + x.Name() + " of " + p.fname(fn) + " (called through an interface)")
			}
			cc := callCommon(e.Site)
			if idx >= len(cc.Args) {
				return f.fail("argument mismatch")
			}
			n++
			if !f.freshSlice(cc.Args[idx], depth+1) {
				return f.fail("argument of " + p.fname(fn) + " at " + p.ipos(e.Site) + ": " + f.why)
			}
		}
		if n == 0 {
			return true // no caller: unreachable code
		}
		return true
	case *ssa.FreeVar:
		return f.fail("captured variable " + x.Name())
	}
	return f.fail("unrecognised slice origin " + v.String())
}

func ruleC12c(c *Ctx) {
	p := c.P
	roles := p.Roles()
	cg := p.callGraph()
	taken := p.addressTaken()
	n := 0
	for _, fn := range p.SrcFunc {
		if !roles.RequestPath[fn] {
			continue
		}
		eachInstr(fn, func(i ssa.Instruction) {
			v, ok := i.(ssa.Value)
			if !ok || !isPtrToRestful(v.Type(), "Route") {
				return
			}
			var slice ssa.Value
			switch x := i.(type) {
			case *ssa.IndexAddr:
				slice = x.X
			case *ssa.FieldAddr:
				// address of a Route-typed field of some struct
				if !escapesAsValue(v) {
					return
				}
				n++
				c.check(p.isFreshObject(x.X), p.fname(fn), "address of Route field "+fieldOfAddr(x).Name(), p.ipos(i),
					"the enclosing object is local to this call", "a pointer to a Route stored inside a shared object escapes")
				return
			default:
				return
			}
			if !escapesAsValue(v) {
				return
			}
			n++
			fc := &freshCtx{p: p, cg: cg, taken: taken, visited: map[ssa.Value]bool{}}
			if fc.freshSlice(slice, 0) {
				c.ok(p.fname(fn), "address of a []Route element escapes", p.ipos(i), "the slice is allocated during this selection (per-request copy)")
			} else {
				c.bad(p.fname(fn), "address of a []Route element escapes", p.ipos(i),
					"the pointer may point into shared storage: "+fc.why+". The dispatcher reads the selected route after releasing the locks, and Route()/RemoveRoute() replace that storage")
			}
		})
	}
	c.count("escaping_route_addresses", n)
	// the dispatcher uses the selected route only after the selection's critical section: recorded
}

// escapesAsValue: the address is used as a value (stored, passed, returned, appended),
// not merely to read or write the element in place.
func escapesAsValue(v ssa.Value) bool {
	for _, r := range referrers(v) {
		switch x := r.(type) {
		case *ssa.UnOp:
			if x.Op == token.MUL {
				continue
			}
		case *ssa.FieldAddr:
			if !escapesAsValue(x) {
				continue
			}
			return true
		case *ssa.Store:
			if x.Addr == v {
				continue
			}
		case *ssa.DebugRef:
			continue
		}
		return true
	}
	return false
}

func ruleC12d(c *Ctx) {
	p := c.P
	li := p.lockInfo()
	cg := p.callGraph()
	type edge struct{ a, b *types.Var }
	edges := map[edge]string{}
	for _, fn := range p.SrcFunc {
		eachInstr(fn, func(i ssa.Instruction) {
			held := li.heldAt(i)
			if len(held) == 0 {
				return
			}
			if op, ok := lockOpOf(i); ok && op.Acquire {
				if _, isDefer := i.(*ssa.Defer); !isDefer {
					for l := range held {
						if _, seen := edges[edge{l, op.Lock}]; !seen {
							edges[edge{l, op.Lock}] = p.fname(fn) + " at " + p.ipos(i)
						}
					}
				}
			}
		})
		for _, e := range cg.Out[fn] {
			held := li.heldAt(e.Site)
			if len(held) == 0 {
				continue
			}
			for l2 := range li.acquires[e.Callee] {
				for l := range held {
					if _, seen := edges[edge{l, l2}]; !seen {
						edges[edge{l, l2}] = p.fname(fn) + " calls " + p.fname(e.Callee) + " at " + p.ipos(e.Site)
					}
				}
			}
		}
	}
	var es []edge
	for e := range edges {
		es = append(es, e)
	}
	sort.Slice(es, func(i, j int) bool {
		if es[i].a.Name() != es[j].a.Name() {
			return es[i].a.Name() < es[j].a.Name()
		}
		return es[i].b.Name() < es[j].b.Name()
	})
	adj := map[*types.Var][]*types.Var{}
	for _, e := range es {
		adj[e.a] = append(adj[e.a], e.b)
	}
	for _, e := range es {
		construct := "lock order " + e.a.Name() + " -> " + e.b.Name()
		if e.a == e.b {
			c.bad("-", construct, "-", "a lock is acquired again while held ("+edges[e]+"): with a writer waiting in between, the second acquisition never succeeds")
			continue
		}
		// is a reachable from b?
		seen := map[*types.Var]bool{}
		stack := []*types.Var{e.b}
		cyc := false
		for len(stack) > 0 {
			x := stack[len(stack)-1]
			stack = stack[:len(stack)-1]
			if x == e.a {
				cyc = true
				break
			}
			if seen[x] {
				continue
			}
			seen[x] = true
			stack = append(stack, adj[x]...)
		}
		c.check(!cyc, "-", construct, "-", "witness: "+edges[e]+"; no path back", "lock-order cycle through "+edges[e])
	}
	if len(es) == 0 {
		c.triv("-", "no nested lock acquisition", "-", "the lock-order graph has no edge")
	}
}

func ruleC12e(c *Ctx) {
	p := c.P
	li := p.lockInfo()
	cg := p.callGraph()
	// functions entered while a module lock (other than the entity registry's) is held
	var under []*ssa.Function
	nsites := 0
	for _, fn := range p.SrcFunc {
		eachInstr(fn, func(i ssa.Instruction) {
			held := li.heldAt(i)
			if len(held) == 0 {
				return
			}
			nsites++
			bad := ""
			switch x := i.(type) {
			case *ssa.Send:
				bad = "channel send"
			case *ssa.Select:
				bad = "select"
			case *ssa.UnOp:
				if x.Op == token.ARROW {
					bad = "channel receive"
				}
			}
			if cc := callCommon(i); cc != nil {
				switch calleeName(cc) {
				case "(*net/http.ServeMux).ServeHTTP", "(net/http.Handler).ServeHTTP", "(net/http.HandlerFunc).ServeHTTP":
					bad = "http serving call"
				}
			}
			if bad != "" {
				c.bad(p.fname(fn), bad+" while holding "+lockSetString(held), p.ipos(i), "a slow or blocked operation under a lock stalls every mutator and, behind a waiting writer, every request")
			}
		})
		for _, e := range cg.Out[fn] {
			if len(li.heldAt(e.Site)) > 0 {
				under = append(under, e.Callee)
			}
		}
	}
	// request-processing callbacks
	procMemo := map[*ssa.Function]bool{}
	for _, fn := range p.SrcFunc {
		eachInstr(fn, func(i ssa.Instruction) {
			held := li.heldAt(i)
			if len(held) == 0 {
				return
			}
			if what := processingCallback(i); what != "" {
				c.bad(p.fname(fn), what+" while holding "+lockSetString(held), p.ipos(i), "request-processing user code runs inside a critical section: it may take arbitrarily long and may re-enter a locking API of the container")
				return
			}
			if cc := callCommon(i); cc != nil {
				if cal := cc.StaticCallee(); cal != nil && p.inModule(cal) && runsProcessingCallback(p, cal, cg, procMemo) {
					c.bad(p.fname(fn), "call of "+p.fname(cal)+" while holding "+lockSetString(held), p.ipos(i),
						p.fname(cal)+" runs filters / route functions / handlers; doing so under a lock stalls Add/Remove behind every slow request and deadlocks when such a callback re-enters a locking API (e.g. OPTIONSFilter -> RegisteredWebServices) while a writer waits")
				}
			}
		})
	}
	reach := cg.reach(under, nil)
	nf := 0
	for _, fn := range p.SrcFunc {
		if !reach[fn] {
			continue
		}
		nf++
		eachInstr(fn, func(i ssa.Instruction) {
			bad := ""
			switch x := i.(type) {
			case *ssa.Send:
				bad = "channel send"
			case *ssa.Select:
				if x.Blocking {
					bad = "blocking select"
				}
			case *ssa.UnOp:
				if x.Op == token.ARROW {
					bad = "channel receive"
				}
			}
			if cc := callCommon(i); cc != nil {
				switch calleeName(cc) {
				case "(*net/http.ServeMux).ServeHTTP", "(net/http.Handler).ServeHTTP", "(net/http.HandlerFunc).ServeHTTP":
					bad = "http serving call"
				}
			}
			if bad != "" {
				c.bad(p.fname(fn), bad+" in a function called under a lock", p.ipos(i), "reachable from a call site that holds a lock")
			}
		})
	}
	c.ok("-", "no blocking operation under a lock", "-", "examined "+itoa(nsites)+" instructions executed under a lock and "+itoa(nf)+" functions reachable from call sites under a lock")
}

var processingFuncTypes = map[string]bool{"FilterFunction": true, "RouteFunction": true, "RecoverHandleFunction": true, "ServiceErrorHandleFunction": true}

// processingCallback: the instruction invokes request-processing user code.
func processingCallback(i ssa.Instruction) string {
	cc := callCommon(i)
	if cc == nil {
		return ""
	}
	if cc.IsInvoke() {
		if cc.Method.Name() == "ServeHTTP" {
			return "http handler call"
		}
		return ""
	}
	switch calleeName(cc) {
	case "(*net/http.ServeMux).ServeHTTP", "(net/http.HandlerFunc).ServeHTTP":
		return "http serving call"
	}
	if isDynamicCall(cc) {
		t := cc.Value.Type()
		if n, ok := types.Unalias(t).(*types.Named); ok && n.Obj().Pkg() != nil && n.Obj().Pkg().Path() == modulePath && processingFuncTypes[n.Obj().Name()] {
			return "call of a " + n.Obj().Name()
		}
		if s := requestShape(cc.Signature()); s == "filter-function" || s == "route-function" || s == "http-handler" {
			return "call of a " + s + " value"
		}
	}
	return ""
}

func runsProcessingCallback(p *Program, fn *ssa.Function, cg *CallGraph, memo map[*ssa.Function]bool) bool {
	if v, ok := memo[fn]; ok {
		return v
	}
	memo[fn] = false
	res := false
	eachInstr(fn, func(i ssa.Instruction) {
		if res {
			return
		}
		if processingCallback(i) != "" {
			res = true
		}
	})
	if !res {
		for _, e := range cg.Out[fn] {
			if e.Kind == EdgeEscape {
				continue
			}
			if runsProcessingCallback(p, e.Callee, cg, memo) {
				res = true
				break
			}
		}
	}
	memo[fn] = res
	return res
}

func ruleC12f(c *Ctx) {
	p := c.P
	li := p.lockInfo()
	cg := p.callGraph()
	fields := mutableFields(p, li)
	// transitive reads of each field
	reads := map[*ssa.Function]map[*types.Var]bool{}
	for _, fn := range p.Funcs {
		m := map[*types.Var]bool{}
		for _, a := range p.fieldAccesses(fn) {
			if a.Kind == "load" && !p.freshBase(a.Addr) {
				m[a.Field] = true
			}
		}
		reads[fn] = m
	}
	for changed := true; changed; {
		changed = false
		for _, fn := range p.Funcs {
			for _, e := range cg.Out[fn] {
				if e.Kind == EdgeEscape || e.Kind == EdgeMux {
					continue
				}
				for f := range reads[e.Callee] {
					if !reads[fn][f] {
						reads[fn][f] = true
						changed = true
					}
				}
			}
		}
	}
	n := 0
	for _, m := range fields {
		key := m.Owner + "." + m.Field.Name()
		if _, ok := c12InitBeforePublish[key]; ok || m.Lock == nil {
			continue
		}
		storers := map[*ssa.Function]bool{}
		for _, s := range m.Stores {
			storers[s.Fn] = true
		}
		for fn := range storers {
			name := p.fname(fn)
			for _, a := range p.fieldAccesses(fn) {
				if a.Field != m.Field || a.Kind != "load" || p.freshBase(a.Addr) {
					continue
				}
				n++
				c.check(li.heldAt(a.Instr)[m.Lock] == lockW, name, "read of "+key+" in the write critical section that updates it", p.ipos(a.Instr),
					"held: "+lockSetString(li.heldAt(a.Instr)), "the field is read outside the write lock and stored later: a concurrent update in between is lost")
			}
			for _, e := range cg.Out[fn] {
				if e.Kind != EdgeStatic && e.Kind != EdgeInvoke && e.Kind != EdgeClosure {
					continue
				}
				if !reads[e.Callee][m.Field] {
					continue
				}
				n++
				c.check(li.heldAt(e.Site)[m.Lock] == lockW, name, "read of "+key+" through "+p.fname(e.Callee)+" in the write critical section", p.ipos(e.Site),
					"held: "+lockSetString(li.heldAt(e.Site)),
					p.fname(e.Callee)+" reads "+key+" while this function holds "+lockSetString(li.heldAt(e.Site))+", and the function stores "+key+" later under the write lock: the stored value is computed from a stale snapshot, a concurrent Route()/Add() in between is silently undone")
			}
		}
	}
	c.count("rmw_reads", n)
	if n == 0 {
		c.triv("-", "no read-modify-write of a mutable field", "-", "nothing to decide")
	}
}

// replacedAsAWhole: every store to the slice field is nil or a slice allocated by the storing function, and nothing
// in the module writes an element of, or appends to, a value loaded from the field: holders of an old value see an
// immutable list.
func (p *Program) replacedAsAWhole(f *types.Var) bool {
	ok := true
	for _, fn := range p.SrcFunc {
		eachInstr(fn, func(i ssa.Instruction) {
			switch x := i.(type) {
			case *ssa.Store:
				if fa, isFA := x.Addr.(*ssa.FieldAddr); isFA && fieldOfAddr(fa) == f {
					if isNilConst(x.Val) {
						return
					}
					fresh := false
					for _, src := range p.sources(x.Val, provOpt{ThroughCells: true}) {
						if _, isMS := strip(src).(*ssa.MakeSlice); isMS {
							fresh = true
						} else {
							fresh = false
							break
						}
					}
					if !fresh {
						ok = false
					}
				}
				// element store into a loaded value of the field
				if ia, isIA := x.Addr.(*ssa.IndexAddr); isIA {
					if _, lf, isL := fieldLoad(strip(ia.X)); isL && lf == f {
						ok = false
					}
				}
			case *ssa.Call:
				if isBuiltinCall(x, "append") || isBuiltinCall(x, "copy") {
					if _, lf, isL := fieldLoad(strip(x.Call.Args[0])); isL && lf == f {
						ok = false
					}
				}
			}
		})
	}
	return ok
}
