// restcheck decides structural clauses of the go-restful properties C01..C19 by static
// analysis of /repo's type-checked SSA form. See /verif/DESIGN.md.
package main

import (
	"encoding/json"
	"flag"
	"fmt"
	"os"
	"path/filepath"
	"runtime/debug"
	"sort"
	"strconv"
	"strings"
	"time"
)

var registry = map[string]*Property{}

// curProgram is the program the rules currently run on (for helpers that have no context parameter).
var curProgram *Program

func register(p *Property) { registry[p.ID] = p }

func defaultRepo() string {
	if r := os.Getenv("RESTCHECK_REPO"); r != "" {
		return r
	}
	return "/repo"
}

func main() {
	prop := flag.String("property", "", "property id (C01..C19) or 'all'")
	tier := flag.String("tier", "", "quick|thorough (default $VERIF_TIER or quick)")
	repo := flag.String("repo", defaultRepo(), "repository to analyse")
	replay := flag.String("replay", "", "re-evaluate the obligation recorded in this violation file")
	noEvidence := flag.Bool("no-evidence", false, "do not write evidence/violation files (used for variant analysis)")
	jsonOut := flag.Bool("json", false, "print obligations as JSON (variant analysis)")
	selftest := flag.Bool("selftest", false, "run the sensitivity suite for -property (or all) and exit non-zero on a failed expectation")
	list := flag.Bool("list", false, "list properties and rules")
	dump := flag.String("dump", "", "debug: dump roles|callgraph")
	verbose := flag.Bool("v", false, "print every obligation")
	flag.Parse()

	if *tier == "" {
		*tier = os.Getenv("VERIF_TIER")
	}
	if *tier != "thorough" {
		*tier = "quick"
	}
	seed := int64(0)
	if s := os.Getenv("VERIF_SEED"); s != "" {
		if n, err := strconv.ParseInt(s, 10, 64); err == nil {
			seed = n
		}
	}
	if *list {
		ids := sortedIDs()
		for _, id := range ids {
			p := registry[id]
			fmt.Printf("%s %s\n", id, p.Title)
			for _, r := range p.Rules {
				fmt.Printf("   %-7s %-14s %s\n", r.ID, r.Template, firstSentence(r.Doc))
			}
		}
		return
	}
	if *replay != "" {
		os.Exit(doReplay(*replay, *repo))
	}
	if *dump != "" {
		os.Exit(doDump(*dump, *repo))
	}
	if *selftest {
		os.Exit(doSelftest(*prop, seed))
	}
	if *prop == "" {
		fmt.Fprintln(os.Stderr, "usage: restcheck -property Cxx [-tier quick|thorough]")
		os.Exit(2)
	}
	ids := []string{*prop}
	if *prop == "all" {
		ids = sortedIDs()
	}
	exit := 0
	var prog *Program
	var forms *formSet
	for _, id := range ids {
		p, ok := registry[id]
		if !ok {
			fmt.Fprintf(os.Stderr, "unknown or unclaimed property %q\n", id)
			os.Exit(2)
		}
		start := time.Now()
		if prog == nil {
			var err error
			prog, err = load(*repo, loadOptions{})
			if err != nil {
				fmt.Printf("ERROR: cannot analyse %s: %v\n", *repo, err)
				fmt.Printf("VIOLATION property=%s replay=%s\n", id, "load-failure")
				os.Exit(1)
			}
			if cp, cerr := canonicaliseAll(prog); cerr == nil {
				prog = cp
			} else if *verbose {
				fmt.Fprintln(os.Stderr, "canonical names: ", cerr)
			}
		}
		c, perr := runProperty(prog, p)
		if perr != nil {
			fmt.Printf("ERROR: analyser failure in %s: %v\n", id, perr)
			fmt.Printf("VIOLATION property=%s replay=%s\n", id, "analyser-failure")
			exit = 1
			continue
		}
		if forms == nil {
			forms = newFormSet(prog, loadOptions{})
		}
		withdrawOnNormalForms(c, forms, *verbose)
		extra := map[string]interface{}{}
		if *tier == "thorough" && !*noEvidence {
			thorough(prog, p, c, seed, extra)
		}
		if *jsonOut {
			b, _ := json.Marshal(c.Obls)
			fmt.Println(string(b))
		}
		if *verbose {
			for _, o := range c.Obls {
				fmt.Printf("  [%s] %s | %s | %s | %s | %s\n", o.Verdict, o.Rule, o.Func, o.Construct, o.Pos, o.Detail)
			}
		}
		res := finish(c, *tier, seed, start, extra, !*noEvidence)
		if !*jsonOut {
			for _, l := range res.Lines {
				fmt.Println(l)
			}
		}
		if res.Violations > 0 {
			exit = 1
		}
	}
	os.Exit(exit)
}

func sortedIDs() []string {
	var ids []string
	for id := range registry {
		ids = append(ids, id)
	}
	sort.Strings(ids)
	return ids
}

func firstSentence(s string) string {
	if i := strings.Index(s, ". "); i > 0 {
		return s[:i+1]
	}
	return s
}

// runProperty runs all rules of p on prog. A panic inside a rule is an analyser failure,
// never a pass.
func runProperty(prog *Program, p *Property) (c *Ctx, err error) {
	curProgram = prog
	c = &Ctx{P: prog, Prop: p, Counters: map[string]int{}, seenKey: map[string]int{}}
	for i := range p.Rules {
		r := &p.Rules[i]
		c.cur = r
		before := len(c.Obls)
		func() {
			defer func() {
				if rec := recover(); rec != nil {
					err = fmt.Errorf("rule %s panicked: %v\n%s", r.ID, rec, debug.Stack())
				}
			}()
			r.Run(c)
		}()
		if err != nil {
			return c, err
		}
		n := 0
		for _, o := range c.Obls[before:] {
			if o.Verdict != Noted {
				n++
			}
		}
		if n == 0 && r.Required {
			c.add(Undecided, "-", "anchor", "-", "rule "+r.ID+" found no anchor although the property needs the mechanism: "+firstSentence(r.Doc), true)
		}
	}
	return c, nil
}

func doReplay(path, repo string) int {
	b, err := os.ReadFile(path)
	if err != nil {
		fmt.Println("ERROR:", err)
		return 2
	}
	var rf replayFile
	if err := json.Unmarshal(b, &rf); err != nil {
		fmt.Println("ERROR:", err)
		return 2
	}
	p, ok := registry[rf.Property]
	if !ok {
		fmt.Println("ERROR: unknown property", rf.Property)
		return 2
	}
	prog, err := load(repo, loadOptions{})
	if err != nil {
		fmt.Println("ERROR:", err)
		return 1
	}
	c, perr := runProperty(prog, p)
	if perr != nil {
		fmt.Println("ERROR:", perr)
		return 1
	}
	want := rf.Oblig.Key()
	fmt.Printf("replaying obligation %s\n  rule: %s (%s)\n  %s\n", want, rf.Oblig.Rule, rf.Template, rf.RuleDoc)
	for _, o := range c.Obls {
		if o.Key() == want {
			fmt.Printf("  on current tree: %s at %s: %s\n", o.Verdict, o.Pos, o.Detail)
			if o.Verdict == Violated || o.Verdict == Undecided {
				fmt.Printf("VIOLATION property=%s replay=%s\n", rf.Property, path)
				return 1
			}
			return 0
		}
	}
	fmt.Println("  obligation no longer present on the current tree")
	return 0
}

func doDump(what, repo string) int {
	prog, err := load(repo, loadOptions{})
	if err != nil {
		fmt.Println("ERROR:", err)
		return 1
	}
	switch what {
	case "roles":
		r := prog.Roles()
		fmt.Printf("%d request roots, %d request-path functions of %d\n", len(r.RequestRoots), len(prog.requestPathFuncs()), len(prog.SrcFunc))
		for _, f := range prog.SrcFunc {
			tag := "  "
			if r.RequestPath[f] {
				tag = "R "
			}
			if r.MutatorPath[f] {
				tag = tag[:1] + "M"
			}
			fmt.Printf("%s %s  %s\n", tag, prog.pos(f.Pos()), prog.fname(f))
		}
	case "callgraph":
		cg := prog.callGraph()
		for _, f := range prog.Funcs {
			for _, e := range cg.Out[f] {
				fmt.Printf("%s -> %s [%d] %s\n", prog.fname(f), prog.fname(e.Callee), e.Kind, prog.ipos(e.Site))
			}
		}
	case "inline":
		fs := newFormSet(prog, loadOptions{})
		if spec := os.Getenv("RESTCHECK_DUMP_FORM"); spec != "" {
			parts := strings.SplitN(spec, ":", 3)
			rounds, _ := strconv.Atoi(parts[1])
			var tg []string
			if len(parts) == 3 && parts[2] != "" {
				tg = strings.Split(parts[2], ",")
			}
			nf := fs.form(parts[0], rounds, tg)
			if nf.Err != nil {
				fmt.Println("ERROR:", nf.Err)
				return 1
			}
			d := os.Getenv("RESTCHECK_DUMP_DIR")
			os.MkdirAll(d, 0o755)
			for name, b := range nf.Prog.Overlay {
				os.WriteFile(filepath.Join(d, filepath.Base(name)), b, 0o644)
			}
			fmt.Printf("form %s: %d calls inlined, written to %s\n", nf.Name, nf.N, d)
			return 0
		}
		for _, nfo := range normalFormOrder {
			nf := fs.form(nfo.kind, nfo.rounds, nil)
			if nf.Err != nil {
				fmt.Printf("form %s%d: ERROR %v\n", nfo.kind, nfo.rounds, nf.Err)
			} else {
				fmt.Printf("form %s: %d calls inlined, %d functions\n", nf.Name, nf.N, len(nf.Prog.SrcFunc))
			}
			if dir := os.Getenv("RESTCHECK_DUMP_DIR"); dir != "" {
				cur := prog
				if nfo.rounds > 1 {
					if pv := fs.form(nfo.kind, nfo.rounds-1, nil); pv.Prog != nil {
						cur = pv.Prog
					}
				}
				ov, _, err := cur.inlineRoundKind(nfo.rounds, nfo.kind, nil, false)
				if err == nil {
					d := filepath.Join(dir, nfo.kind+strconv.Itoa(nfo.rounds))
					os.MkdirAll(d, 0o755)
					for name, b := range ov {
						os.WriteFile(filepath.Join(d, filepath.Base(name)), b, 0o644)
					}
				}
			}
		}
	case "names":
		for _, rs := range roleSpecs {
			obj := rs.Find(prog)
			if obj == nil {
				fmt.Printf("%-40s NOT FOUND\n", rs.Canon)
				continue
			}
			mark := ""
			if obj.Name() != canonShort(rs.Canon) {
				mark = "  <- would be rewritten"
			}
			fmt.Printf("%-40s %s%s\n", rs.Canon, obj.Name(), mark)
		}
	case "funcs":
		for _, f := range prog.Funcs {
			fmt.Printf("%s  %s  synthetic=%q\n", prog.pos(f.Pos()), prog.fname(f), f.Synthetic)
		}
	}
	return 0
}
