package main

import (
	"go/ast"
	"go/token"
	"go/types"
	"strings"

	"golang.org/x/tools/go/packages"
	"golang.org/x/tools/go/ssa"
)

// AST evaluators (DESIGN §2.1 A-ast): the map-range scanner for T-DETERMINISM.

type mapRange struct {
	Stmt   *ast.RangeStmt
	Fn     *ssa.Function
	FnDecl ast.Node // enclosing FuncDecl or FuncLit
	Info   *types.Info
	File   *ast.File
	Prog   *Program
}

func (p *Program) modulePackages() []*packages.Package {
	var out []*packages.Package
	for _, pk := range p.Pkgs {
		if p.Restful.Pkg == pk.Types || p.Log.Pkg == pk.Types {
			out = append(out, pk)
		}
	}
	return out
}

// ssaFuncFor maps a FuncDecl/FuncLit to its SSA function.
func (p *Program) ssaFuncFor(n ast.Node, info *types.Info) *ssa.Function {
	switch x := n.(type) {
	case *ast.FuncDecl:
		if obj, ok := info.Defs[x.Name].(*types.Func); ok {
			return p.Prog.FuncValue(obj)
		}
	case *ast.FuncLit:
		for _, fn := range p.Funcs {
			if fn.Syntax() == ast.Node(x) {
				return fn
			}
		}
	}
	return nil
}

func (p *Program) mapRanges() []mapRange {
	var out []mapRange
	for _, pk := range p.modulePackages() {
		for _, file := range pk.Syntax {
			if strings.HasSuffix(p.Fset.Position(file.Pos()).Filename, "_test.go") {
				continue
			}
			var stack []ast.Node
			ast.Inspect(file, func(n ast.Node) bool {
				if n == nil {
					stack = stack[:len(stack)-1]
					return true
				}
				stack = append(stack, n)
				rs, ok := n.(*ast.RangeStmt)
				if !ok {
					return true
				}
				tv, ok := pk.TypesInfo.Types[rs.X]
				if !ok {
					return true
				}
				if _, isMap := tv.Type.Underlying().(*types.Map); !isMap {
					return true
				}
				var encl ast.Node
				for i := len(stack) - 1; i >= 0; i-- {
					switch stack[i].(type) {
					case *ast.FuncDecl, *ast.FuncLit:
						encl = stack[i]
					}
					if encl != nil {
						break
					}
				}
				out = append(out, mapRange{Stmt: rs, Fn: p.ssaFuncFor(encl, pk.TypesInfo), FnDecl: encl, Info: pk.TypesInfo, File: file, Prog: p})
				return true
			})
		}
	}
	return out
}

type detFinding struct {
	Pos  token.Pos
	What string
}

// analyseMapRange returns the result-affecting, iteration-order-dependent constructs in the loop body.
func analyseMapRange(mr mapRange) (findings []detFinding, accepted []string) {
	info := mr.Info
	rs := mr.Stmt
	iter := map[types.Object]bool{}
	for _, e := range []ast.Expr{rs.Key, rs.Value} {
		if id, ok := e.(*ast.Ident); ok && id.Name != "_" {
			if o := info.Defs[id]; o != nil {
				iter[o] = true
			} else if o := info.Uses[id]; o != nil {
				iter[o] = true
			}
		}
	}
	var keyObj types.Object
	if id, ok := rs.Key.(*ast.Ident); ok && id.Name != "_" {
		keyObj = info.Defs[id]
		if keyObj == nil {
			keyObj = info.Uses[id]
		}
	}
	inBody := func(o types.Object) bool {
		return o != nil && o.Pos() >= rs.Body.Pos() && o.Pos() <= rs.Body.End()
	}
	tainted := map[types.Object]bool{}
	for o := range iter {
		tainted[o] = true
	}
	refs := func(e ast.Node) bool {
		found := false
		ast.Inspect(e, func(n ast.Node) bool {
			if id, ok := n.(*ast.Ident); ok {
				if o := info.Uses[id]; o != nil && tainted[o] {
					found = true
				}
			}
			return !found
		})
		return found
	}
	// propagate taint through local definitions in the body
	for changed := true; changed; {
		changed = false
		ast.Inspect(rs.Body, func(n ast.Node) bool {
			as, ok := n.(*ast.AssignStmt)
			if !ok {
				return true
			}
			rhsT := false
			for _, r := range as.Rhs {
				if refs(r) {
					rhsT = true
				}
			}
			if !rhsT {
				return true
			}
			for _, l := range as.Lhs {
				if id, ok := l.(*ast.Ident); ok {
					o := info.Defs[id]
					if o == nil {
						o = info.Uses[id]
					}
					if o != nil && inBody(o) && !tainted[o] {
						tainted[o] = true
						changed = true
					}
				}
			}
			return true
		})
	}
	// boolean locals of the body that are defined once (`better := len(k) > len(best) || ...; if better {`): a guard
	// that names one stands for its defining expression
	boolDef := map[types.Object]ast.Expr{}
	nDef := map[types.Object]int{}
	ast.Inspect(rs.Body, func(n ast.Node) bool {
		as, ok := n.(*ast.AssignStmt)
		if !ok {
			return true
		}
		for i, l := range as.Lhs {
			id, ok := l.(*ast.Ident)
			if !ok {
				continue
			}
			o := info.Defs[id]
			if o == nil {
				o = info.Uses[id]
			}
			if o == nil || !inBody(o) {
				continue
			}
			nDef[o]++
			if as.Tok == token.DEFINE && len(as.Lhs) == len(as.Rhs) {
				if _, isBasic := o.Type().Underlying().(*types.Basic); isBasic {
					boolDef[o] = as.Rhs[i] // any local of a basic type: `keyLength := len(k)` as well as `better := a || b`
				}
			}
		}
		return true
	})
	var expandBools func(e ast.Expr, depth int) ast.Expr
	expandBools = func(e ast.Expr, depth int) ast.Expr {
		if depth > 3 {
			return e
		}
		switch x := e.(type) {
		case *ast.Ident:
			if o := info.Uses[x]; o != nil && nDef[o] == 1 && boolDef[o] != nil {
				return &ast.ParenExpr{X: expandBools(boolDef[o], depth+1)}
			}
		case *ast.ParenExpr:
			return &ast.ParenExpr{X: expandBools(x.X, depth)}
		case *ast.UnaryExpr:
			return &ast.UnaryExpr{Op: x.Op, X: expandBools(x.X, depth)}
		case *ast.BinaryExpr:
			return &ast.BinaryExpr{X: expandBools(x.X, depth), Op: x.Op, Y: expandBools(x.Y, depth)}
		case *ast.CallExpr:
			args := make([]ast.Expr, len(x.Args))
			for i, a := range x.Args {
				args[i] = expandBools(a, depth)
			}
			return &ast.CallExpr{Fun: x.Fun, Args: args, Ellipsis: x.Ellipsis}
		}
		return e
	}
	hasBreak := false
	var taintedOuterAssign []token.Pos
	var walk func(n ast.Node, guard []ast.Expr)
	walkList := func(l []ast.Stmt, guard []ast.Expr) {
		for _, s := range l {
			walk(s, guard)
			// `if cond { ...; continue }`: what follows in the same list runs only when cond is false
			if is, ok := s.(*ast.IfStmt); ok && is.Else == nil && is.Init == nil && len(is.Body.List) > 0 {
				if br, ok := is.Body.List[len(is.Body.List)-1].(*ast.BranchStmt); ok && br.Tok == token.CONTINUE {
					guard = append(append([]ast.Expr{}, guard...), &ast.UnaryExpr{Op: token.NOT, X: &ast.ParenExpr{X: expandBools(is.Cond, 0)}})
				}
			}
		}
	}
	walk = func(n ast.Node, guard []ast.Expr) {
		switch x := n.(type) {
		case nil:
		case *ast.BlockStmt:
			walkList(x.List, guard)
		case *ast.IfStmt:
			if x.Init != nil {
				walk(x.Init, guard)
			}
			walk(x.Body, append(append([]ast.Expr{}, guard...), expandBools(x.Cond, 0)))
			if x.Else != nil {
				walk(x.Else, guard)
			}
		case *ast.ForStmt:
			walk(x.Body, guard)
		case *ast.RangeStmt:
			walk(x.Body, guard)
		case *ast.SwitchStmt:
			walk(x.Body, guard)
		case *ast.TypeSwitchStmt:
			walk(x.Body, guard)
		case *ast.CaseClause:
			walkList(x.Body, guard)
		case *ast.LabeledStmt:
			walk(x.Stmt, guard)
		case *ast.ReturnStmt:
			dep := false
			for _, r := range x.Results {
				if refs(r) {
					dep = true
				}
			}
			if dep {
				findings = append(findings, detFinding{x.Pos(), "return of an iteration-dependent value from inside a range over a map: the first element visited wins, and map order is random"})
			} else {
				accepted = append(accepted, "return of an iteration-independent value (quantifier)")
			}
		case *ast.BranchStmt:
			if x.Tok == token.BREAK || x.Tok == token.GOTO {
				hasBreak = true
			}
		case *ast.AssignStmt:
			rhsT := false
			for _, r := range x.Rhs {
				if refs(r) {
					rhsT = true
				}
			}
			for _, l := range x.Lhs {
				switch lx := l.(type) {
				case *ast.Ident:
					o := info.Defs[lx]
					if o == nil {
						o = info.Uses[lx]
					}
					if o == nil || inBody(o) || lx.Name == "_" {
						continue
					}
					if !rhsT {
						continue // e.g. found = true
					}
					if x.Tok == token.ADD_ASSIGN || x.Tok == token.OR_ASSIGN || x.Tok == token.AND_ASSIGN || x.Tok == token.XOR_ASSIGN || x.Tok == token.MUL_ASSIGN {
						if b, ok := o.Type().Underlying().(*types.Basic); ok && b.Info()&types.IsNumeric != 0 {
							accepted = append(accepted, "commutative numeric accumulation")
							continue
						}
					}
					if isArgmaxGuard(guard, x, keyObj, info) || isArgmaxGuardSemantic(mr, guard, x, keyObj) {
						accepted = append(accepted, "selection of the extremal key under a strict total order on the keys")
						continue
					}
					taintedOuterAssign = append(taintedOuterAssign, x.Pos())
					findings = append(findings, detFinding{x.Pos(), "assignment of an iteration-dependent value to " + lx.Name + ", which lives after the loop: the last (or, with break, first) element in random map order decides"})
				case *ast.IndexExpr:
					// m2[k] = ... keyed by the iteration key: commutative across distinct keys
					if id, ok := lx.Index.(*ast.Ident); ok && keyObj != nil && info.Uses[id] == keyObj {
						accepted = append(accepted, "update keyed by the iteration key (commutative)")
						continue
					}
					if rhsT || refs(lx.Index) {
						findings = append(findings, detFinding{x.Pos(), "indexed update whose index/value depends on the iteration but is not keyed by the map key"})
					}
				default:
					if rhsT {
						findings = append(findings, detFinding{x.Pos(), "store of an iteration-dependent value through " + exprString(l)})
					}
				}
			}
		case *ast.ExprStmt:
			call, ok := x.X.(*ast.CallExpr)
			if !ok {
				return
			}
			if !refs(call) {
				return
			}
			if sel, ok := call.Fun.(*ast.SelectorExpr); ok {
				// commutative sinks: header/map-like Add/Set/Del keyed by the map key
				if sel.Sel.Name == "Add" || sel.Sel.Name == "Set" || sel.Sel.Name == "Del" {
					if tv, ok := info.Types[sel.X]; ok && isNamed(tv.Type, "net/http", "Header") && len(call.Args) >= 1 {
						if id, ok := call.Args[0].(*ast.Ident); ok && keyObj != nil && info.Uses[id] == keyObj {
							accepted = append(accepted, "http.Header."+sel.Sel.Name+" keyed by the iteration key (commutative across keys)")
							return
						}
					}
				}
				// logging
				if tv, ok := info.Types[sel.X]; ok && (isNamed(tv.Type, modulePath+"/log", "StdLogger")) {
					return
				}
			}
			findings = append(findings, detFinding{x.Pos(), "call with iteration-dependent arguments executed in map order: " + exprString(call.Fun)})
		case *ast.DeclStmt, *ast.IncDecStmt, *ast.EmptyStmt:
		case *ast.GoStmt, *ast.DeferStmt, *ast.SendStmt, *ast.SelectStmt:
			findings = append(findings, detFinding{n.Pos(), "concurrency statement inside a range over a map"})
		}
	}
	walk(rs.Body, nil)
	_ = hasBreak
	_ = taintedOuterAssign
	return findings, accepted
}

func exprString(e ast.Expr) string { return types.ExprString(e) }

// isArgmaxGuard recognises
//
//	if ... && (A(k) > A(best) || (A(k) == A(best) && k < best)) { best, ... = k, ... }
//	if ... && k < best { best = k }
//
// i.e. the assignment keeps the extremal key under a strict total order on the (distinct)
// map keys, which makes the loop's result independent of iteration order.
func isArgmaxGuard(guard []ast.Expr, as *ast.AssignStmt, keyObj types.Object, info *types.Info) bool {
	if keyObj == nil || len(guard) == 0 {
		return false
	}
	// the carried key variable: the LHS that receives the key
	var best types.Object
	if len(as.Lhs) == len(as.Rhs) {
		for i, r := range as.Rhs {
			if id, ok := r.(*ast.Ident); ok && info.Uses[id] == keyObj {
				if l, ok := as.Lhs[i].(*ast.Ident); ok {
					best = info.Uses[l]
					if best == nil {
						best = info.Defs[l]
					}
				}
			}
		}
	}
	if best == nil {
		return false
	}
	isObj := func(e ast.Expr, o types.Object) bool {
		e = unparen(e)
		id, ok := e.(*ast.Ident)
		return ok && info.Uses[id] == o
	}
	// render an expression with the key / best identifiers replaced by a placeholder
	render := func(e ast.Expr, o types.Object) (string, bool) {
		uses := false
		s := renderWith(e, func(id *ast.Ident) string {
			if info.Uses[id] == o {
				uses = true
				return "§"
			}
			return id.Name
		})
		return s, uses
	}
	strictKeyCmp := func(e ast.Expr) bool {
		b, ok := unparen(e).(*ast.BinaryExpr)
		if !ok || (b.Op != token.LSS && b.Op != token.GTR) {
			return false
		}
		return (isObj(b.X, keyObj) && isObj(b.Y, best)) || (isObj(b.X, best) && isObj(b.Y, keyObj))
	}
	sameMeasure := func(x, y ast.Expr) bool {
		// A(k) vs A(best) in either order
		sx, ux := render(x, keyObj)
		sy, uy := render(y, best)
		if ux && uy && sx == sy {
			return true
		}
		sx, ux = render(x, best)
		sy, uy = render(y, keyObj)
		return ux && uy && sx == sy
	}
	var total func(e ast.Expr) bool
	total = func(e ast.Expr) bool {
		e = unparen(e)
		if strictKeyCmp(e) {
			return true
		}
		b, ok := e.(*ast.BinaryExpr)
		if !ok || b.Op != token.LOR {
			return false
		}
		// A(k) > A(best) || (A(k) == A(best) && <total>)
		l, ok := unparen(b.X).(*ast.BinaryExpr)
		if !ok || (l.Op != token.LSS && l.Op != token.GTR) || !sameMeasure(l.X, l.Y) {
			return false
		}
		r, ok := unparen(b.Y).(*ast.BinaryExpr)
		if !ok || r.Op != token.LAND {
			return false
		}
		eq, ok := unparen(r.X).(*ast.BinaryExpr)
		if !ok || eq.Op != token.EQL || !sameMeasure(eq.X, eq.Y) {
			return false
		}
		// the equality must be on the same measure as the strict comparison
		s1, _ := render(l.X, keyObj)
		s1b, _ := render(l.X, best)
		e1, _ := render(eq.X, keyObj)
		e1b, _ := render(eq.X, best)
		if !(s1 == e1 || s1 == e1b || s1b == e1 || s1b == e1b) {
			return false
		}
		return total(r.Y)
	}
	// only the innermost guard decides; it may be a conjunction
	inner := guard[len(guard)-1]
	var conj []ast.Expr
	var split func(e ast.Expr)
	split = func(e ast.Expr) {
		e = unparen(e)
		if b, ok := e.(*ast.BinaryExpr); ok && b.Op == token.LAND {
			split(b.X)
			split(b.Y)
			return
		}
		conj = append(conj, e)
	}
	split(inner)
	nTotal := 0
	for _, cj := range conj {
		if total(cj) {
			nTotal++
			continue
		}
		// other conjuncts must not look at the carried state
		usesBest := false
		ast.Inspect(cj, func(n ast.Node) bool {
			if id, ok := n.(*ast.Ident); ok && info.Uses[id] == best {
				usesBest = true
			}
			return true
		})
		if usesBest {
			return false
		}
	}
	// outer guards must not depend on the carried state either
	for _, g := range guard[:len(guard)-1] {
		usesBest := false
		ast.Inspect(g, func(n ast.Node) bool {
			if id, ok := n.(*ast.Ident); ok && info.Uses[id] == best {
				usesBest = true
			}
			return true
		})
		if usesBest {
			return false
		}
	}
	return nTotal == 1
}

func unparen(e ast.Expr) ast.Expr {
	for {
		p, ok := e.(*ast.ParenExpr)
		if !ok {
			return e
		}
		e = p.X
	}
}

func renderWith(e ast.Expr, name func(*ast.Ident) string) string {
	var sb strings.Builder
	var w func(n ast.Expr)
	w = func(n ast.Expr) {
		switch x := n.(type) {
		case *ast.Ident:
			sb.WriteString(name(x))
		case *ast.ParenExpr:
			w(x.X)
		case *ast.CallExpr:
			w(x.Fun)
			sb.WriteString("(")
			for i, a := range x.Args {
				if i > 0 {
					sb.WriteString(",")
				}
				w(a)
			}
			sb.WriteString(")")
		case *ast.SelectorExpr:
			w(x.X)
			sb.WriteString("." + x.Sel.Name)
		case *ast.BinaryExpr:
			w(x.X)
			sb.WriteString(x.Op.String())
			w(x.Y)
		case *ast.UnaryExpr:
			sb.WriteString(x.Op.String())
			w(x.X)
		case *ast.IndexExpr:
			w(x.X)
			sb.WriteString("[")
			w(x.Index)
			sb.WriteString("]")
		case *ast.BasicLit:
			sb.WriteString(x.Value)
		default:
			sb.WriteString(types.ExprString(n))
		}
	}
	w(e)
	return sb.String()
}

// isArgmaxGuardSemantic is isArgmaxGuard decided by evaluation instead of by shape: the carried key may be a field of a
// carried struct (`match = T{key: k, ...}`), and the comparison may live in a helper (`match.improvedBy(k)`).
func isArgmaxGuardSemantic(mr mapRange, guard []ast.Expr, as *ast.AssignStmt, keyObj types.Object) bool {
	info := mr.Info
	if keyObj == nil || len(guard) == 0 || mr.Prog == nil {
		return false
	}
	var best types.Object
	bestField := ""
	objOf := func(id *ast.Ident) types.Object {
		if o := info.Uses[id]; o != nil {
			return o
		}
		return info.Defs[id]
	}
	if len(as.Lhs) == len(as.Rhs) {
		for i, r := range as.Rhs {
			l, ok := as.Lhs[i].(*ast.Ident)
			if !ok {
				continue
			}
			switch rx := unparen(r).(type) {
			case *ast.Ident:
				if info.Uses[rx] == keyObj {
					best = objOf(l)
				}
			case *ast.CompositeLit:
				for _, el := range rx.Elts {
					kv, ok := el.(*ast.KeyValueExpr)
					if !ok {
						continue
					}
					if vid, ok := unparen(kv.Value).(*ast.Ident); ok && info.Uses[vid] == keyObj {
						if kid, ok := kv.Key.(*ast.Ident); ok {
							best, bestField = objOf(l), kid.Name
						}
					}
				}
			}
		}
	}
	if best == nil {
		return false
	}
	usesBest := func(e ast.Expr) bool {
		u := false
		ast.Inspect(e, func(n ast.Node) bool {
			if id, ok := n.(*ast.Ident); ok && info.Uses[id] == best {
				u = true
			}
			return true
		})
		return u
	}
	var conj []ast.Expr
	var split func(e ast.Expr)
	split = func(e ast.Expr) {
		e = unparen(e)
		if b, ok := e.(*ast.BinaryExpr); ok && b.Op == token.LAND {
			split(b.X)
			split(b.Y)
			return
		}
		// !(a || b) is !a && !b ; !!a is a
		if u, ok := e.(*ast.UnaryExpr); ok && u.Op == token.NOT {
			switch x := unparen(u.X).(type) {
			case *ast.BinaryExpr:
				if x.Op == token.LOR {
					split(&ast.UnaryExpr{Op: token.NOT, X: &ast.ParenExpr{X: x.X}})
					split(&ast.UnaryExpr{Op: token.NOT, X: &ast.ParenExpr{X: x.Y}})
					return
				}
			case *ast.UnaryExpr:
				if x.Op == token.NOT {
					split(x.X)
					return
				}
			}
		}
		conj = append(conj, e)
	}
	for _, g := range guard {
		split(g)
	}
	// the conjunction of every conjunct that looks at the carried state is what decides the replacement
	var deciding ast.Expr
	for _, cj := range conj {
		if !usesBest(cj) {
			continue
		}
		if deciding == nil {
			deciding = cj
		} else {
			deciding = &ast.BinaryExpr{X: deciding, Op: token.LAND, Y: cj}
		}
	}
	if deciding == nil {
		return false
	}
	return semanticArgmaxGuard(mr.Prog, info, deciding, keyObj.Name(), best.Name(), bestField)
}
