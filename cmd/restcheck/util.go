package main

import (
	"sort"
	"strconv"
	"strings"
)

func fmtInt(n int) string { return strconv.Itoa(n) }

func sortedJoin(m map[string]bool) string {
	var ks []string
	for k := range m {
		ks = append(ks, k)
	}
	sort.Strings(ks)
	return strings.Join(ks, " | ")
}

func sortedKeys(m map[string]bool) []string {
	var ks []string
	for k := range m {
		ks = append(ks, k)
	}
	sort.Strings(ks)
	return ks
}
