package main

import (
	"fmt"
	"go/ast"
	"go/parser"
	"go/token"
	"go/types"
	"os"
	"path/filepath"
	"sort"
	"strconv"
	"strings"

	"golang.org/x/tools/go/packages"
)

// Source-level normalisation (DESIGN §12.4): calls of unexported, statically resolved functions and methods of the
// root package are replaced by the callee's body. The result is ordinary Go source that is type-checked and converted
// to SSA like the original, so every rule can be run on it unchanged. Inlining preserves behaviour; it is used only
// to decide an obligation that the rule could not discharge on the source as written (a mechanism that was moved
// into a helper), never to produce a violation.
//
//	x, ok := c.helper(a, b)        var res0_i T0; var res1_i T1
//	                          =>   { var c_i *C = c; var a_i A = a; var b_i B = b
//	                                 L_i: for { <body, locals renamed, `return e0, e1` => { res0_i, res1_i = e0, e1; break L_i }>; break L_i } }
//	                               x, ok := res0_i, res1_i
//
// A call is inlined only where hoisting it in front of its statement keeps the order of evaluation: it must be the
// first thing with a side effect that the statement evaluates, outside the right operand of && and ||, outside
// loop conditions, case expressions, defer and go. Callees with defer, recover, go, goto or variadic parameters,
// generic or recursive callees, and methods reached through embedding are left as calls.

type textEdit struct {
	start, end int // byte offsets in the file
	text       string
}

func applyEdits(src []byte, edits []textEdit) ([]byte, error) {
	sort.SliceStable(edits, func(i, j int) bool {
		if edits[i].start != edits[j].start {
			return edits[i].start < edits[j].start
		}
		return edits[i].end < edits[j].end
	})
	var out []byte
	pos := 0
	for _, e := range edits {
		if e.start < pos {
			return nil, fmt.Errorf("overlapping edits at offset %d", e.start)
		}
		out = append(out, src[pos:e.start]...)
		out = append(out, e.text...)
		pos = e.end
	}
	out = append(out, src[pos:]...)
	return out, nil
}

type inlineCallee struct {
	fn       *types.Func
	lit      *ast.FuncLit // a function literal bound once to a local variable (decl is nil then)
	litVar   *types.Var
	decl     *ast.FuncDecl
	file     *ast.File
	src      []byte
	tailOnly bool // has defer/recover: only a call in tail position of its caller runs them at the same moment
}

func (ci *inlineCallee) ftype() *ast.FuncType {
	if ci.lit != nil {
		return ci.lit.Type
	}
	return ci.decl.Type
}

func (ci *inlineCallee) body() *ast.BlockStmt {
	if ci.lit != nil {
		return ci.lit.Body
	}
	return ci.decl.Body
}

func (ci *inlineCallee) node() ast.Node {
	if ci.lit != nil {
		return ci.lit
	}
	return ci.decl
}

type inliner struct {
	p              *Program
	pk             *packages.Package
	src            map[string][]byte // file name -> bytes of this round's starting snapshot
	callees        map[*types.Func]*inlineCallee
	closures       map[*types.Var]*inlineCallee
	onlyCaller     func(caller *ast.FuncDecl) bool
	sites          map[*types.Func]int // static call sites per callee
	seq            int
	round          int
	only           func(callee *types.Func, caller *ast.FuncDecl) bool
	edits          map[string][]textEdit
	imports        map[string]map[string]string // file -> name -> path to add
	N              int
	Deleted        int
	Skipped        map[string]int
	tail           bool                      // the statement being looked at is the last one of a function body
	consumed       map[string][][2]token.Pos // source ranges replaced as a whole: statements inside them are left alone
	closureInlined map[*types.Var]int
	closureCalls   map[*types.Var]int
	closureDef     map[*types.Var]ast.Node // the defining statement
	inlined        map[*types.Func]int
	valRefs        map[*types.Func]bool // referenced other than as the function of a call
}

func (p *Program) rootPackage() *packages.Package {
	var best *packages.Package
	for _, pk := range p.Pkgs {
		if pk.PkgPath == modulePath && !strings.HasSuffix(pk.ID, ".test") {
			if best == nil || !strings.Contains(pk.ID, "[") {
				best = pk
			}
		}
	}
	return best
}

func (p *Program) fileBytes(name string) ([]byte, error) {
	if b, ok := p.Overlay[name]; ok {
		return b, nil
	}
	return os.ReadFile(name)
}

// inlineRound performs one round of inlining over the root package and returns the new overlay.
func (p *Program) inlineRound(round int, only func(callee *types.Func, caller *ast.FuncDecl) bool) (map[string][]byte, int, error) {
	return p.inlineRoundD(round, only, false)
}

func (p *Program) inlineRoundD(round int, only func(callee *types.Func, caller *ast.FuncDecl) bool, noDelete bool) (map[string][]byte, int, error) {
	return p.inlineRoundC(round, only, nil, noDelete)
}

func (p *Program) inlineRoundC(round int, only func(callee *types.Func, caller *ast.FuncDecl) bool, onlyCaller func(caller *ast.FuncDecl) bool, noDelete bool) (map[string][]byte, int, error) {
	pk := p.rootPackage()
	if pk == nil {
		return nil, 0, fmt.Errorf("root package not loaded")
	}
	in := &inliner{p: p, pk: pk, src: map[string][]byte{}, callees: map[*types.Func]*inlineCallee{}, closures: map[*types.Var]*inlineCallee{}, sites: map[*types.Func]int{}, round: round, only: only,
		onlyCaller: onlyCaller, edits: map[string][]textEdit{}, imports: map[string]map[string]string{}, Skipped: map[string]int{}, inlined: map[*types.Func]int{}, valRefs: map[*types.Func]bool{}, consumed: map[string][][2]token.Pos{}, closureInlined: map[*types.Var]int{}, closureCalls: map[*types.Var]int{}, closureDef: map[*types.Var]ast.Node{}}
	for _, f := range pk.Syntax {
		name := p.Fset.Position(f.Pos()).Filename
		if strings.HasSuffix(name, "_test.go") {
			continue
		}
		b, err := p.fileBytes(name)
		if err != nil {
			return nil, 0, err
		}
		in.src[name] = b
	}
	in.collectCallees()
	for _, f := range pk.Syntax {
		name := p.Fset.Position(f.Pos()).Filename
		if _, ok := in.src[name]; !ok {
			continue
		}
		for _, d := range f.Decls {
			fd, ok := d.(*ast.FuncDecl)
			if !ok || fd.Body == nil {
				continue
			}
			in.walkBody(f, name, fd, fd.Body)
		}
	}
	// a callee all of whose call sites were inlined, and which is referenced nowhere else, is dead: drop it, so that
	// rules that look at every function see its body only where it now runs
	if os.Getenv("RESTCHECK_KEEP_DEAD") == "" && !noDelete {
		for fn, ci := range in.callees {
			if in.inlined[fn] == 0 || in.inlined[fn] != in.sites[fn] || in.valRefs[fn] {
				continue
			}
			name := p.Fset.Position(ci.file.Pos()).Filename
			start := ci.decl.Pos()
			if ci.decl.Doc != nil {
				start = ci.decl.Doc.Pos()
			}
			so, eo := p.Fset.Position(start).Offset, p.Fset.Position(ci.decl.End()).Offset
			// keep the line structure
			blank := strings.Repeat("\n", strings.Count(string(in.src[name][so:eo]), "\n"))
			// inlined calls inside the dead declaration itself would overlap with its removal
			var kept []textEdit
			for _, e := range in.edits[name] {
				if e.start >= so && e.end <= eo {
					continue
				}
				kept = append(kept, e)
			}
			in.edits[name] = append(kept, textEdit{so, eo, blank})
			in.Deleted++
		}
	}
	// closures all of whose calls were inlined: the definition goes (its captures would keep the captured variables
	// in cells), and with it the uses written at the call sites
	deadClosure := map[string]bool{}
	for v, n := range in.closureInlined {
		def, ok := in.closureDef[v].(*ast.AssignStmt)
		if !ok || n != in.closureCalls[v] || noDelete {
			continue
		}
		name := p.Fset.Position(def.Pos()).Filename
		so, eo := p.Fset.Position(def.Pos()).Offset, p.Fset.Position(def.End()).Offset
		overlap := false
		for _, e := range in.edits[name] {
			if e.start < eo && e.end > so {
				overlap = true
			}
		}
		if overlap {
			continue
		}
		in.edits[name] = append(in.edits[name], textEdit{so, eo, strings.Repeat("\n", strings.Count(string(in.src[name][so:eo]), "\n"))})
		deadClosure[name+"|"+v.Name()] = true
	}
	for name, eds := range in.edits {
		for k := range eds {
			t := eds[k].text
			for {
				a := strings.Index(t, "\x00USE:")
				if a < 0 {
					break
				}
				b := strings.Index(t[a+1:], "\x00")
				if b < 0 {
					break
				}
				vn := t[a+5 : a+1+b]
				rep := "_ = " + vn
				if deadClosure[name+"|"+vn] {
					rep = ""
				}
				t = t[:a] + rep + t[a+1+b+1:]
			}
			eds[k].text = t
		}
	}
	if os.Getenv("RESTCHECK_TRACE_FORMS") != "" {
		fmt.Fprintf(os.Stderr, "inline round %d: %d inlined, %d dead helpers dropped, skipped: %v\n", round, in.N, in.Deleted, in.Skipped)
	}
	overlay := map[string][]byte{}
	for k, v := range p.Overlay {
		overlay[k] = v
	}
	for name, eds := range in.edits {
		src := in.src[name]
		// imports to add
		if imps := in.imports[name]; len(imps) > 0 {
			var f *ast.File
			for _, ff := range pk.Syntax {
				if p.Fset.Position(ff.Pos()).Filename == name {
					f = ff
				}
			}
			off := p.Fset.Position(f.Name.End()).Offset
			var sb strings.Builder
			var names []string
			for n := range imps {
				names = append(names, n)
			}
			sort.Strings(names)
			for _, n := range names {
				sb.WriteString("\nimport " + n + " " + strconv.Quote(imps[n]))
			}
			sb.WriteString("\n")
			eds = append(eds, textEdit{off, off, sb.String()})
		}
		nb, err := applyEdits(src, eds)
		if err != nil {
			return nil, 0, fmt.Errorf("%s: %v", filepath.Base(name), err)
		}
		if in.Deleted > 0 {
			nb = in.blankUnusedImports(name, nb)
		}
		overlay[name] = nb
	}
	return overlay, in.N, nil
}

// blankUnusedImports turns imports that the text no longer uses (their only users were dropped) into blank imports.
func (in *inliner) blankUnusedImports(name string, src []byte) []byte {
	fs := token.NewFileSet()
	f, err := parser.ParseFile(fs, name, src, parser.SkipObjectResolution)
	if err != nil {
		return src
	}
	used := map[string]bool{}
	ast.Inspect(f, func(n ast.Node) bool {
		if se, ok := n.(*ast.SelectorExpr); ok {
			if id, ok := se.X.(*ast.Ident); ok {
				used[id.Name] = true
			}
		}
		return true
	})
	// default names of imported packages, from the loaded program
	defName := map[string]string{}
	for _, ip := range in.pk.Imports {
		defName[ip.PkgPath] = ip.Name
	}
	var eds []textEdit
	for _, is := range f.Imports {
		path, _ := strconv.Unquote(is.Path.Value)
		nm := ""
		if is.Name != nil {
			nm = is.Name.Name
		} else if d, ok := defName[path]; ok {
			nm = d
		} else {
			nm = path[strings.LastIndex(path, "/")+1:]
		}
		if nm == "_" || nm == "." || used[nm] {
			continue
		}
		eds = append(eds, textEdit{fs.Position(is.Pos()).Offset, fs.Position(is.End()).Offset, "_ " + is.Path.Value})
	}
	if len(eds) == 0 {
		return src
	}
	nb, err := applyEdits(src, eds)
	if err != nil {
		return src
	}
	return nb
}

func (in *inliner) collectCallees() {
	info := in.pk.TypesInfo
	for _, f := range in.pk.Syntax {
		name := in.p.Fset.Position(f.Pos()).Filename
		src, ok := in.src[name]
		if !ok {
			continue
		}
		for _, d := range f.Decls {
			fd, ok := d.(*ast.FuncDecl)
			if !ok || fd.Body == nil || fd.Name.IsExported() || fd.Name.Name == "init" || fd.Name.Name == "_" {
				continue
			}
			if fd.Type.TypeParams != nil {
				continue
			}
			obj, _ := info.Defs[fd.Name].(*types.Func)
			if obj == nil {
				continue
			}
			sig := obj.Type().(*types.Signature)
			if sig.Variadic() || sig.RecvTypeParams() != nil || sig.TypeParams() != nil {
				continue
			}
			bad := false
			tailOnly := false
			ast.Inspect(fd.Body, func(n ast.Node) bool {
				switch x := n.(type) {
				case *ast.FuncLit:
					// defers of a nested function literal are its own; recover() there is not ours either
					return false
				case *ast.DeferStmt:
					tailOnly = true
				case *ast.BranchStmt:
					if x.Tok == token.GOTO {
						bad = true
					}
				case *ast.CallExpr:
					if id, ok := ast.Unparen(x.Fun).(*ast.Ident); ok {
						if id.Name == "recover" {
							tailOnly = true
						}
						if info.Uses[id] == types.Object(obj) {
							bad = true // direct recursion
						}
					}
					if se, ok := ast.Unparen(x.Fun).(*ast.SelectorExpr); ok && info.Uses[se.Sel] == types.Object(obj) {
						bad = true
					}
				}
				return !bad
			})
			if bad {
				continue
			}
			// a deferred closure may still call recover or the function itself: look into literals for recursion only
			ast.Inspect(fd.Body, func(n ast.Node) bool {
				if x, ok := n.(*ast.CallExpr); ok {
					if id, ok := ast.Unparen(x.Fun).(*ast.Ident); ok && info.Uses[id] == types.Object(obj) {
						bad = true
					}
					if se, ok := ast.Unparen(x.Fun).(*ast.SelectorExpr); ok && info.Uses[se.Sel] == types.Object(obj) {
						bad = true
					}
				}
				return !bad
			})
			if bad {
				continue
			}
			in.callees[obj] = &inlineCallee{fn: obj, decl: fd, file: f, src: src, tailOnly: tailOnly}
		}
	}
	in.collectClosures()
	// call-site counts, and references that are not calls
	callFun := map[*ast.Ident]bool{}
	for _, f := range in.pk.Syntax {
		ast.Inspect(f, func(n ast.Node) bool {
			if call, ok := n.(*ast.CallExpr); ok {
				if fn := in.staticCallee(call); fn != nil {
					in.sites[fn]++
					switch fun := ast.Unparen(call.Fun).(type) {
					case *ast.Ident:
						callFun[fun] = true
					case *ast.SelectorExpr:
						callFun[fun.Sel] = true
					}
				}
			}
			return true
		})
	}
	for id, obj := range info.Uses {
		if fn, ok := obj.(*types.Func); ok && !callFun[id] {
			in.valRefs[fn] = true
		}
	}
}

// collectClosures: local variables bound exactly once to a function literal, never reassigned and never used other
// than being called (`keep := func(r *Route) bool {...}` ... `keep(each)`). Their calls can be replaced by the
// literal's body: the variables the literal captures are the very variables visible at the call.
func (in *inliner) collectClosures() {
	info := in.pk.TypesInfo
	for _, f := range in.pk.Syntax {
		name := in.p.Fset.Position(f.Pos()).Filename
		src, ok := in.src[name]
		if !ok {
			continue
		}
		cand := map[*types.Var]*ast.FuncLit{}
		bad := map[*types.Var]bool{}
		ast.Inspect(f, func(n ast.Node) bool {
			switch x := n.(type) {
			case *ast.AssignStmt:
				if x.Tok == token.DEFINE && len(x.Lhs) == 1 && len(x.Rhs) == 1 {
					if id, ok := x.Lhs[0].(*ast.Ident); ok {
						if fl, ok := ast.Unparen(x.Rhs[0]).(*ast.FuncLit); ok {
							if v, ok := info.Defs[id].(*types.Var); ok {
								cand[v] = fl
								in.closureDef[v] = x
								return true
							}
						}
					}
				}
				for _, l := range x.Lhs {
					if id, ok := l.(*ast.Ident); ok {
						if v, ok := info.Uses[id].(*types.Var); ok {
							bad[v] = true
						}
					}
				}
			case *ast.ValueSpec:
				if len(x.Names) == 1 && len(x.Values) == 1 {
					if fl, ok := ast.Unparen(x.Values[0]).(*ast.FuncLit); ok {
						if v, ok := info.Defs[x.Names[0]].(*types.Var); ok && v.Parent() != in.pk.Types.Scope() {
							cand[v] = fl
						}
					}
				}
			}
			return true
		})
		// every use must be the function of a call
		callFun := map[*ast.Ident]bool{}
		ast.Inspect(f, func(n ast.Node) bool {
			if call, ok := n.(*ast.CallExpr); ok {
				if id, ok := ast.Unparen(call.Fun).(*ast.Ident); ok {
					callFun[id] = true
				}
			}
			return true
		})
		// `_ = x` (as the inliner itself writes after a binding) is not a use
		blankUse := map[*ast.Ident]bool{}
		ast.Inspect(f, func(n ast.Node) bool {
			if as, ok := n.(*ast.AssignStmt); ok && as.Tok == token.ASSIGN && len(as.Lhs) == len(as.Rhs) {
				for i, l := range as.Lhs {
					if lid, ok := l.(*ast.Ident); ok && lid.Name == "_" {
						if rid, ok := ast.Unparen(as.Rhs[i]).(*ast.Ident); ok {
							blankUse[rid] = true
						}
					}
				}
			}
			return true
		})
		for id, obj := range info.Uses {
			if v, ok := obj.(*types.Var); ok && cand[v] != nil && !callFun[id] && !blankUse[id] {
				bad[v] = true
			}
			if v, ok := obj.(*types.Var); ok && cand[v] != nil && callFun[id] {
				in.closureCalls[v]++
			}
		}
		for v, fl := range cand {
			if bad[v] {
				continue
			}
			sig, ok := info.TypeOf(fl).(*types.Signature)
			if !ok || sig.Variadic() {
				continue
			}
			unfit := false
			ast.Inspect(fl.Body, func(n ast.Node) bool {
				switch x := n.(type) {
				case *ast.FuncLit:
					return false
				case *ast.DeferStmt:
					unfit = true
				case *ast.BranchStmt:
					if x.Tok == token.GOTO {
						unfit = true
					}
				case *ast.CallExpr:
					if id, ok := ast.Unparen(x.Fun).(*ast.Ident); ok {
						if id.Name == "recover" || info.Uses[id] == types.Object(v) {
							unfit = true
						}
					}
				}
				return !unfit
			})
			if unfit {
				continue
			}
			in.closures[v] = &inlineCallee{lit: fl, litVar: v, file: f, src: src}
		}
	}
}

// calleeOf: the inlinable callee of a call - a declared function or method, or a once-bound function literal.
func (in *inliner) calleeOf(call *ast.CallExpr, caller *ast.FuncDecl) *inlineCallee {
	if fn := in.staticCallee(call); fn != nil {
		if ci := in.callees[fn]; ci != nil && (in.only == nil || in.only(fn, caller)) {
			return ci
		}
		return nil
	}
	if id, ok := ast.Unparen(call.Fun).(*ast.Ident); ok {
		if v, ok := in.pk.TypesInfo.Uses[id].(*types.Var); ok {
			if ci := in.closures[v]; ci != nil && (in.onlyCaller == nil || in.onlyCaller(caller)) {
				return ci
			}
		}
	}
	return nil
}

func (in *inliner) staticCallee(call *ast.CallExpr) *types.Func {
	info := in.pk.TypesInfo
	switch fun := ast.Unparen(call.Fun).(type) {
	case *ast.Ident:
		if fn, ok := info.Uses[fun].(*types.Func); ok {
			return fn
		}
	case *ast.SelectorExpr:
		if sel, ok := info.Selections[fun]; ok && sel.Kind() == types.MethodVal {
			if fn, ok := sel.Obj().(*types.Func); ok {
				if _, isIface := sel.Recv().Underlying().(*types.Interface); !isIface {
					return fn
				}
			}
		}
	}
	return nil
}

// walkBody visits every statement list of body. The last statement of a function body (of the declaration or of a
// function literal) is in tail position.
func (in *inliner) walkBody(f *ast.File, fname string, caller *ast.FuncDecl, body *ast.BlockStmt) {
	funcBodies := map[*ast.BlockStmt]bool{body: true}
	ast.Inspect(body, func(m ast.Node) bool {
		if fl, ok := m.(*ast.FuncLit); ok {
			funcBodies[fl.Body] = true
		}
		return true
	})
	handle := func(list []ast.Stmt, isFuncBody bool) {
		for k, s := range list {
			in.tail = isFuncBody && k == len(list)-1
			in.tryStmt(f, fname, caller, s)
		}
		in.tail = false
	}
	ast.Inspect(body, func(m ast.Node) bool {
		switch x := m.(type) {
		case *ast.BlockStmt:
			handle(x.List, funcBodies[x])
		case *ast.CaseClause:
			handle(x.Body, false)
		case *ast.CommClause:
			handle(x.Body, false)
		}
		return true
	})
}

func isPureBuiltin(name string) bool {
	switch name {
	case "len", "cap", "make", "new", "min", "max", "complex", "real", "imag":
		return true
	}
	return false
}

// findCall returns the first eligible call that e evaluates, provided everything evaluated before it is free of
// side effects. pure reports whether e as a whole is free of side effects (only meaningful when no call is returned).
func (in *inliner) findCall(e ast.Expr, caller *ast.FuncDecl) (call *ast.CallExpr, pure bool) {
	info := in.pk.TypesInfo
	if e == nil {
		return nil, true
	}
	seq := func(es ...ast.Expr) (*ast.CallExpr, bool) {
		for _, x := range es {
			c, p := in.findCall(x, caller)
			if c != nil || !p {
				return c, p
			}
		}
		return nil, true
	}
	switch x := e.(type) {
	case *ast.Ident, *ast.BasicLit:
		return nil, true
	case *ast.FuncLit:
		return nil, true
	case *ast.ParenExpr:
		return in.findCall(x.X, caller)
	case *ast.SelectorExpr:
		return in.findCall(x.X, caller)
	case *ast.StarExpr:
		return in.findCall(x.X, caller)
	case *ast.UnaryExpr:
		if x.Op == token.ARROW {
			return nil, false
		}
		return in.findCall(x.X, caller)
	case *ast.BinaryExpr:
		if x.Op == token.LAND || x.Op == token.LOR {
			c, p := in.findCall(x.X, caller)
			if c != nil || !p {
				return c, p
			}
			// the right operand is evaluated conditionally: never hoist out of it
			_, p2 := in.findCall(x.Y, caller)
			if c2, _ := in.findCall(x.Y, caller); c2 != nil {
				return nil, false
			}
			return nil, p2
		}
		return seq(x.X, x.Y)
	case *ast.IndexExpr:
		return seq(x.X, x.Index)
	case *ast.SliceExpr:
		return seq(x.X, x.Low, x.High, x.Max)
	case *ast.TypeAssertExpr:
		return in.findCall(x.X, caller)
	case *ast.KeyValueExpr:
		return in.findCall(x.Value, caller)
	case *ast.CompositeLit:
		return seq(x.Elts...)
	case *ast.CallExpr:
		// conversions and pure builtins
		if tv, ok := info.Types[x.Fun]; ok && tv.IsType() {
			return seq(x.Args...)
		}
		if id, ok := ast.Unparen(x.Fun).(*ast.Ident); ok {
			if _, isB := info.Uses[id].(*types.Builtin); isB {
				if isPureBuiltin(id.Name) {
					return seq(x.Args...)
				}
				if c, p := seq(x.Args...); c != nil || !p {
					return c, p
				}
				return nil, false
			}
		}
		if in.calleeOf(x, caller) != nil {
			// receiver expression and arguments are evaluated as part of the hoisted bindings
			return x, false
		}
		// some other call: look inside its operands first (they are evaluated before it)
		var ops []ast.Expr
		if se, ok := ast.Unparen(x.Fun).(*ast.SelectorExpr); ok {
			ops = append(ops, se.X)
		} else if _, ok := ast.Unparen(x.Fun).(*ast.Ident); !ok {
			ops = append(ops, x.Fun)
		}
		ops = append(ops, x.Args...)
		if c, p := seq(ops...); c != nil || !p {
			return c, p
		}
		return nil, false
	}
	return nil, false
}

// containsEligible: e contains a call the inliner would inline in this caller.
func (in *inliner) containsEligible(e ast.Expr, caller *ast.FuncDecl) bool {
	found := false
	ast.Inspect(e, func(n ast.Node) bool {
		if _, ok := n.(*ast.FuncLit); ok {
			return false
		}
		if call, ok := n.(*ast.CallExpr); ok {
			if in.calleeOf(call, caller) != nil {
				found = true
			}
		}
		return !found
	})
	return found
}

// splitShortCircuit rewrites, where the conditionally evaluated operand holds an eligible call,
//
//	if A && B { T }        =>  if A { if B { T } }
//	return A && B          =>  if A { return B }; return false
//	return A || B          =>  if A { return true }; return B
//
// so that the next round can hoist the call. Reports whether the statement was rewritten.
func (in *inliner) splitShortCircuit(fname string, caller *ast.FuncDecl, st ast.Stmt) bool {
	fset := in.p.Fset
	off := func(pos token.Pos) int { return fset.Position(pos).Offset }
	src := in.src[fname]
	text := func(n ast.Node) string { return string(src[off(n.Pos()):off(n.End())]) }
	switch x := st.(type) {
	case *ast.IfStmt:
		be, ok := ast.Unparen(x.Cond).(*ast.BinaryExpr)
		if !ok || be.Op != token.LAND || x.Else != nil || !in.containsEligible(be.Y, caller) {
			return false
		}
		if c, _ := in.findCall(be.X, caller); c != nil {
			return false // the left operand is handled first
		}
		in.edits[fname] = append(in.edits[fname],
			textEdit{off(x.Cond.Pos()), off(x.Cond.End()), text(be.X) + " { if " + text(be.Y)},
			textEdit{off(x.Body.End()), off(x.Body.End()), " }"})
		in.N++
		return true
	case *ast.ReturnStmt:
		if len(x.Results) != 1 {
			return false
		}
		be, ok := ast.Unparen(x.Results[0]).(*ast.BinaryExpr)
		if !ok || (be.Op != token.LAND && be.Op != token.LOR) || !in.containsEligible(be.Y, caller) {
			return false
		}
		if c, _ := in.findCall(be.X, caller); c != nil {
			return false
		}
		if tv, ok := in.pk.TypesInfo.Types[x.Results[0]]; !ok || !types.Identical(tv.Type, types.Typ[types.Bool]) && !types.Identical(tv.Type, types.Typ[types.UntypedBool]) {
			return false
		}
		var rep string
		if be.Op == token.LAND {
			rep = "if " + text(be.X) + " { return " + text(be.Y) + " }\nreturn false"
		} else {
			rep = "if " + text(be.X) + " { return true }\nreturn " + text(be.Y)
		}
		in.edits[fname] = append(in.edits[fname], textEdit{off(x.Pos()), off(x.End()), rep})
		in.N++
		return true
	}
	return false
}

func (in *inliner) tryStmt(f *ast.File, fname string, caller *ast.FuncDecl, s ast.Stmt) {
	insertAt := s
	inner := s
	for {
		ls, ok := inner.(*ast.LabeledStmt)
		if !ok {
			break
		}
		inner = ls.Stmt
	}
	for _, rg := range in.consumed[fname] {
		if s.Pos() >= rg[0] && s.End() <= rg[1] {
			return
		}
	}
	if in.splitShortCircuit(fname, caller, inner) {
		in.consumed[fname] = append(in.consumed[fname], [2]token.Pos{inner.Pos(), inner.End()})
		return
	}
	var call *ast.CallExpr
	multiOK := false // the call may have several results here
	dropStmt := false
	pureAll := func(es []ast.Expr) bool {
		for _, e := range es {
			if c, p := in.findCall(e, caller); c != nil || !p {
				return false
			}
		}
		return true
	}
	fromList := func(es []ast.Expr) *ast.CallExpr {
		for _, e := range es {
			c, p := in.findCall(e, caller)
			if c != nil {
				return c
			}
			if !p {
				return nil
			}
		}
		return nil
	}
	var simple func(st ast.Stmt) *ast.CallExpr
	simple = func(st ast.Stmt) *ast.CallExpr {
		switch x := st.(type) {
		case *ast.ExprStmt:
			c, _ := in.findCall(x.X, caller)
			if c != nil && ast.Unparen(x.X) == ast.Expr(c) {
				dropStmt = st == inner
				multiOK = true
			}
			return c
		case *ast.AssignStmt:
			// operands of index expressions and pointer indirections on the left are evaluated first
			for _, l := range x.Lhs {
				switch lx := l.(type) {
				case *ast.Ident:
				default:
					if c, p := in.findCall(lx, caller); c != nil || !p {
						return nil
					}
				}
			}
			c := fromList(x.Rhs)
			if c != nil && len(x.Rhs) == 1 && ast.Unparen(x.Rhs[0]) == ast.Expr(c) && (x.Tok == token.ASSIGN || x.Tok == token.DEFINE) {
				multiOK = true
			}
			return c
		case *ast.DeclStmt:
			gd, ok := x.Decl.(*ast.GenDecl)
			if !ok || gd.Tok != token.VAR || len(gd.Specs) != 1 {
				return nil
			}
			vs := gd.Specs[0].(*ast.ValueSpec)
			c := fromList(vs.Values)
			if c != nil && len(vs.Values) == 1 && ast.Unparen(vs.Values[0]) == ast.Expr(c) {
				multiOK = true
			}
			return c
		case *ast.ReturnStmt:
			c := fromList(x.Results)
			if c != nil && len(x.Results) == 1 && ast.Unparen(x.Results[0]) == ast.Expr(c) {
				multiOK = true
			}
			return c
		case *ast.IncDecStmt, *ast.SendStmt:
			return nil
		}
		return nil
	}
	switch x := inner.(type) {
	case *ast.ExprStmt, *ast.AssignStmt, *ast.DeclStmt, *ast.ReturnStmt:
		call = simple(x)
	case *ast.IfStmt:
		if x.Init != nil {
			call = simple(x.Init)
			dropStmt = false
			if call != nil {
				if es, ok := x.Init.(*ast.ExprStmt); ok && ast.Unparen(es.X) == ast.Expr(call) {
					call = nil // `if f(); cond` - leave it
				}
			}
		} else {
			call, _ = in.findCall(x.Cond, caller)
		}
	case *ast.SwitchStmt:
		if x.Init != nil {
			call = simple(x.Init)
			dropStmt = false
			if call != nil {
				if es, ok := x.Init.(*ast.ExprStmt); ok && ast.Unparen(es.X) == ast.Expr(call) {
					call = nil
				}
			}
		} else if x.Tag != nil {
			call, _ = in.findCall(x.Tag, caller)
		}
	case *ast.RangeStmt:
		call, _ = in.findCall(x.X, caller)
	}
	_ = pureAll
	if call == nil {
		return
	}
	in.inlineAt(f, fname, caller, insertAt, inner, call, multiOK, dropStmt)
}

func (in *inliner) skip(why string) { in.Skipped[why]++ }

func (in *inliner) inlineAt(f *ast.File, fname string, caller *ast.FuncDecl, insertAt, stmt ast.Stmt, call *ast.CallExpr, multiOK, dropStmt bool) {
	info := in.pk.TypesInfo
	fset := in.p.Fset
	ci := in.calleeOf(call, caller)
	if ci == nil {
		return
	}
	fn := ci.fn
	if fn != nil && info.Defs[caller.Name] == types.Object(fn) {
		return
	}
	if ci.lit != nil && call.Pos() >= ci.lit.Pos() && call.End() <= ci.lit.End() {
		return
	}
	if ci.tailOnly {
		// deferred calls of the callee run when the caller returns: the same moment only if nothing follows the call
		_, isExpr := stmt.(*ast.ExprStmt)
		_, isRet := stmt.(*ast.ReturnStmt)
		if !in.tail || !(isExpr && dropStmt || isRet && multiOK) {
			in.skip("callee with defer not in tail position")
			return
		}
	}
	var sig *types.Signature
	if fn != nil {
		sig = fn.Type().(*types.Signature)
	} else {
		sig = info.TypeOf(ci.lit).(*types.Signature)
	}
	nres := sig.Results().Len()
	if nres > 1 && !multiOK {
		in.skip("multi-value call inside an expression")
		return
	}
	if nres == 0 && !dropStmt {
		in.skip("call without result not used as a statement")
		return
	}
	if len(call.Args) != sig.Params().Len() || call.Ellipsis.IsValid() {
		in.skip("argument count differs (multi-value argument)")
		return
	}
	off := func(pos token.Pos) int { return fset.Position(pos).Offset }
	csrc := ci.src
	ctext := func(n ast.Node) string { return string(csrc[off(n.Pos()):off(n.End())]) }
	src := in.src[fname]
	text := func(n ast.Node) string { return string(src[off(n.Pos()):off(n.End())]) }

	in.seq++
	sfx := "_inl" + strconv.Itoa(in.round) + "x" + strconv.Itoa(in.seq)

	// receiver
	var recvText string
	if sig.Recv() != nil {
		se, ok := ast.Unparen(call.Fun).(*ast.SelectorExpr)
		if !ok {
			in.skip("method call without selector")
			return
		}
		sel := info.Selections[se]
		if sel == nil || len(sel.Index()) != 1 {
			in.skip("method reached through embedding")
			return
		}
		rt := sig.Recv().Type()
		at := info.TypeOf(se.X)
		_, rp := rt.Underlying().(*types.Pointer)
		_, ap := at.Underlying().(*types.Pointer)
		switch {
		case rp && !ap:
			recvText = "&(" + text(se.X) + ")"
		case !rp && ap:
			recvText = "*(" + text(se.X) + ")"
		default:
			recvText = text(se.X)
		}
	}

	// identifiers of the callee: renames and capture check
	pkgScope := in.pk.Types.Scope()
	inner := pkgScope.Innermost(call.Pos())
	rename := map[types.Object]string{}
	var bodyEdits []textEdit
	bodyStart := off(ci.body().Lbrace) + 1
	bodyEnd := off(ci.body().Rbrace)
	declStart, declEnd := ci.node().Pos(), ci.node().End()
	isLocal := func(o types.Object) bool {
		if o == nil || o.Pos() < declStart || o.Pos() >= declEnd {
			return false
		}
		switch v := o.(type) {
		case *types.Var:
			return !v.IsField()
		case *types.Label, *types.Const, *types.TypeName:
			return true
		}
		return false
	}
	// callee file imports by name
	captureOK := true
	captureWhy := ""
	needImports := map[string]string{}
	callerImports := map[string]string{}
	for _, is := range f.Imports {
		path, _ := strconv.Unquote(is.Path.Value)
		name := ""
		if is.Name != nil {
			name = is.Name.Name
		} else if pn, ok := info.Implicits[is].(*types.PkgName); ok {
			name = pn.Name()
		}
		callerImports[name] = path
	}
	for n, pth := range in.imports[fname] {
		callerImports[n] = pth
	}
	ast.Inspect(ci.node(), func(n ast.Node) bool {
		id, ok := n.(*ast.Ident)
		if !ok || id.Name == "_" {
			return true
		}
		obj := info.Uses[id]
		if obj == nil {
			obj = info.Defs[id]
		}
		if obj == nil {
			return true
		}
		if isLocal(obj) {
			if _, ok := rename[obj]; !ok {
				rename[obj] = obj.Name() + sfx
			}
			return true
		}
		if _, isPkgName := obj.(*types.PkgName); !isPkgName && obj.Pkg() != nil && obj.Pkg() != in.pk.Types {
			return true // reached through a qualified identifier or a selector
		}
		switch o := obj.(type) {
		case *types.PkgName:
			path := o.Imported().Path()
			if p2, ok := callerImports[o.Name()]; ok {
				if p2 != path {
					captureOK = false
					captureWhy = "import name " + o.Name() + " is " + p2 + " here, " + path + " there"
				}
			} else {
				needImports[o.Name()] = path
			}
			// a caller local of the same name would capture it
			if _, o2 := inner.LookupParent(o.Name(), call.Pos()); o2 != nil {
				if _, isPkg := o2.(*types.PkgName); !isPkg {
					captureOK = false
					captureWhy = "import name " + o.Name() + " shadowed"
				}
			}
		case *types.Var:
			if o.IsField() {
				return true
			}
			if _, o2 := inner.LookupParent(obj.Name(), call.Pos()); o2 != obj {
				captureOK = false
				captureWhy = "var " + obj.Name()
			}
		case *types.Func:
			if s2, ok := o.Type().(*types.Signature); ok && s2.Recv() != nil {
				return true
			}
			if _, o2 := inner.LookupParent(obj.Name(), call.Pos()); o2 != obj {
				captureOK = false
			}
		case *types.Label:
		default:
			if _, o2 := inner.LookupParent(obj.Name(), call.Pos()); o2 != obj {
				captureOK = false
				captureWhy = fmt.Sprintf("%T %s", obj, obj.Name())
			}
		}
		return true
	})
	if !captureOK {
		if os.Getenv("RESTCHECK_TRACE_FORMS") == "2" {
			fmt.Fprintf(os.Stderr, "capture: %s at %s\n", captureWhy, fset.Position(call.Pos()))
		}
		in.skip("a name used by the callee is shadowed at the call site")
		in.seq--
		return
	}
	// implicit objects of type switches
	ast.Inspect(ci.body(), func(n ast.Node) bool {
		ts, ok := n.(*ast.TypeSwitchStmt)
		if !ok {
			return true
		}
		as, ok := ts.Assign.(*ast.AssignStmt)
		if !ok || len(as.Lhs) != 1 {
			return true
		}
		id := as.Lhs[0].(*ast.Ident)
		newName := id.Name + sfx
		used := false
		for _, cl := range ts.Body.List {
			if o := info.Implicits[cl]; o != nil {
				rename[o] = newName
				used = true
			}
		}
		if used {
			bodyEdits = append(bodyEdits, textEdit{off(id.Pos()), off(id.End()), newName})
		}
		return true
	})
	ast.Inspect(ci.body(), func(n ast.Node) bool {
		id, ok := n.(*ast.Ident)
		if !ok {
			return true
		}
		obj := info.Uses[id]
		if obj == nil {
			obj = info.Defs[id]
		}
		if nn, ok := rename[obj]; ok && obj != nil {
			// `x` in a struct literal `T{x: 1}` resolves to the field, not to a local: untouched by construction
			bodyEdits = append(bodyEdits, textEdit{off(id.Pos()), off(id.End()), nn})
		}
		return true
	})
	// dedupe edits at identical positions (type-switch identifier)
	seenPos := map[int]bool{}
	var be []textEdit
	for _, e := range bodyEdits {
		if seenPos[e.start] {
			continue
		}
		seenPos[e.start] = true
		be = append(be, textEdit{e.start - bodyStart, e.end - bodyStart, e.text})
	}
	t1, err := applyEdits(append([]byte{}, csrc[bodyStart:bodyEnd]...), be)
	if err != nil {
		in.skip("rename edits overlap")
		return
	}
	// results
	var resNames, resTypes []string
	if ci.ftype().Results != nil {
		k := 0
		for _, fld := range ci.ftype().Results.List {
			if len(fld.Names) == 0 {
				resNames = append(resNames, "res"+strconv.Itoa(k)+sfx)
				resTypes = append(resTypes, ctext(fld.Type))
				k++
				continue
			}
			for _, nm := range fld.Names {
				if nm.Name == "_" {
					resNames = append(resNames, "res"+strconv.Itoa(k)+sfx)
				} else {
					resNames = append(resNames, nm.Name+sfx)
				}
				resTypes = append(resTypes, ctext(fld.Type))
				k++
			}
		}
	}
	label := "L" + sfx
	// rewrite returns
	const pre = "package p\nfunc _() {\n"
	wrapped := pre + string(t1) + "\n}\n"
	fs2 := token.NewFileSet()
	pf, err := parser.ParseFile(fs2, "inl.go", wrapped, parser.SkipObjectResolution)
	if err != nil {
		in.skip("renamed body does not parse")
		return
	}
	var retEdits []textEdit
	bad := false
	var visit func(n ast.Node) bool
	visit = func(n ast.Node) bool {
		switch x := n.(type) {
		case *ast.FuncLit:
			return false
		case *ast.ReturnStmt:
			s0 := fs2.Position(x.Pos()).Offset - len(pre)
			e0 := fs2.Position(x.End()).Offset - len(pre)
			var rep string
			switch {
			case len(x.Results) == 0:
				rep = "break " + label
			case len(x.Results) == len(resNames):
				var es []string
				for _, r := range x.Results {
					es = append(es, wrapped[fs2.Position(r.Pos()).Offset:fs2.Position(r.End()).Offset])
				}
				rep = "{ " + strings.Join(resNames, ", ") + " = " + strings.Join(es, ", ") + "; break " + label + " }"
			case len(x.Results) == 1:
				r := x.Results[0]
				rep = "{ " + strings.Join(resNames, ", ") + " = " + wrapped[fs2.Position(r.Pos()).Offset:fs2.Position(r.End()).Offset] + "; break " + label + " }"
			default:
				bad = true
			}
			retEdits = append(retEdits, textEdit{s0, e0, rep})
			return false
		}
		return true
	}
	ast.Inspect(pf.Decls[0].(*ast.FuncDecl).Body, visit)
	if bad {
		in.skip("return shape")
		return
	}
	t2, err := applyEdits(t1, retEdits)
	if err != nil {
		in.skip("return edits overlap")
		return
	}
	// bindings
	var sb strings.Builder
	sb.WriteString("\n")
	for k := range resNames {
		sb.WriteString("var " + resNames[k] + " " + resTypes[k] + "\n")
	}
	sb.WriteString("{\n")
	if ci.lit != nil {
		// the variable would otherwise be unused once all its calls are gone (the line is dropped together with
		// the definition when every call was inlined)
		sb.WriteString("\x00USE:" + ci.litVar.Name() + "\x00\n")
		in.closureInlined[ci.litVar]++
	}
	if sig.Recv() != nil {
		rf := ci.decl.Recv.List[0]
		rname := "_"
		if len(rf.Names) == 1 && rf.Names[0].Name != "_" {
			rname = rf.Names[0].Name + sfx
		}
		sb.WriteString("var " + rname + " " + ctext(rf.Type) + " = " + recvText + "\n")
		if rname != "_" {
			sb.WriteString("_ = " + rname + "\n")
		}
	}
	k := 0
	for _, fld := range ci.ftype().Params.List {
		names := fld.Names
		if len(names) == 0 {
			sb.WriteString("var _ " + ctext(fld.Type) + " = " + text(call.Args[k]) + "\n")
			k++
			continue
		}
		for _, nm := range names {
			pn := "_"
			if nm.Name != "_" {
				pn = nm.Name + sfx
			}
			sb.WriteString("var " + pn + " " + ctext(fld.Type) + " = " + text(call.Args[k]) + "\n")
			if pn != "_" {
				sb.WriteString("_ = " + pn + "\n")
			}
			k++
		}
	}
	sb.WriteString(label + ":\nfor {\n")
	sb.Write(t2)
	sb.WriteString("\nbreak " + label + "\n}\n}\n")
	if len(resNames) > 0 {
		us := make([]string, len(resNames))
		for i := range us {
			us[i] = "_"
		}
		sb.WriteString(strings.Join(us, ", ") + " = " + strings.Join(resNames, ", ") + "\n")
	}
	eds := in.edits[fname]
	if dropStmt {
		eds = append(eds, textEdit{off(stmt.Pos()), off(stmt.End()), sb.String()})
	} else {
		eds = append(eds, textEdit{off(insertAt.Pos()), off(insertAt.Pos()), sb.String()})
		eds = append(eds, textEdit{off(call.Pos()), off(call.End()), strings.Join(resNames, ", ")})
	}
	in.edits[fname] = eds
	if len(needImports) > 0 {
		if in.imports[fname] == nil {
			in.imports[fname] = map[string]string{}
		}
		for n, pth := range needImports {
			in.imports[fname][n] = pth
		}
	}
	in.N++
	if fn != nil {
		in.inlined[fn]++
	}
	if dropStmt {
		in.consumed[fname] = append(in.consumed[fname], [2]token.Pos{stmt.Pos(), stmt.End()})
	} else {
		in.consumed[fname] = append(in.consumed[fname], [2]token.Pos{call.Pos(), call.End()})
	}
	// the copied body brings its own calls: new call sites of those callees
	ast.Inspect(ci.body(), func(n ast.Node) bool {
		if c2, ok := n.(*ast.CallExpr); ok {
			if g := in.staticCallee(c2); g != nil {
				in.sites[g]++
			}
		}
		return true
	})
}

// ---------------------------------------------------------------------------
// normalised forms of a program

type normalForm struct {
	Name string
	Prog *Program
	Err  error
	N    int
}

type formSet struct {
	base  *Program
	built map[string]*normalForm
}

func newFormSet(p *Program, _ loadOptions) *formSet {
	return &formSet{base: p, built: map[string]*normalForm{}}
}

// declDisplayName renders a declaration like Program.fname renders its function.
func declDisplayName(fd *ast.FuncDecl) string {
	if fd.Recv == nil || len(fd.Recv.List) == 0 {
		return fd.Name.Name
	}
	t := fd.Recv.List[0].Type
	ptr := false
	if st, ok := t.(*ast.StarExpr); ok {
		ptr = true
		t = st.X
	}
	name := ""
	if id, ok := t.(*ast.Ident); ok {
		name = id.Name
	}
	if ptr {
		return "(*" + name + ")." + fd.Name.Name
	}
	return "(" + name + ")." + fd.Name.Name
}

// form builds (once) the program obtained by `rounds` rounds of inlining.
//
//	kind "all":      every eligible call in the package
//	kind "single":   only callees with exactly one static call site
//	kind "targeted": every eligible call inside the declarations named in targets (and nowhere else)
func (fs *formSet) form(kind string, rounds int, targets []string) *normalForm {
	name := kind + strconv.Itoa(rounds)
	if kind == "targeted" || kind == "callee" {
		name += "[" + strings.Join(targets, ",") + "]"
	}
	if nf, ok := fs.built[name]; ok {
		return nf
	}
	nf := &normalForm{Name: name}
	fs.built[name] = nf
	cur := fs.base
	if rounds > 1 {
		prev := fs.form(kind, rounds-1, targets)
		if prev.Err != nil || prev.Prog == nil {
			nf.Err = fmt.Errorf("previous round unavailable: %v", prev.Err)
			return nf
		}
		cur = prev.Prog
	}
	overlay, n, err := cur.inlineRoundKind(rounds, kind, targets, false)
	if err != nil {
		nf.Err = err
		return nf
	}
	if n == 0 {
		nf.Err = fmt.Errorf("nothing to inline")
		return nf
	}
	opt := fs.base.Opt
	opt.Overlay = overlay
	opt.Quiet = os.Getenv("RESTCHECK_TRACE_FORMS") == ""
	np, err := load(fs.base.Repo, opt)
	if err != nil {
		// dropping a dead helper can leave an import unused or a method set incomplete: keep the helpers then
		overlay, n, err = cur.inlineRoundKind(rounds, kind, targets, true)
		if err == nil {
			opt.Overlay = overlay
			np, err = load(fs.base.Repo, opt)
		}
	}
	if err != nil {
		nf.Err = err
		return nf
	}
	nf.Prog, nf.N = np, n
	return nf
}

func (p *Program) inlineRoundKind(round int, kind string, targets []string, noDelete bool) (map[string][]byte, int, error) {
	switch kind {
	case "single":
		pk := p.rootPackage()
		if pk == nil {
			return nil, 0, fmt.Errorf("root package not loaded")
		}
		counts := map[*types.Func]int{}
		tmp := &inliner{p: p, pk: pk}
		for _, f := range pk.Syntax {
			ast.Inspect(f, func(n ast.Node) bool {
				if call, ok := n.(*ast.CallExpr); ok {
					if fn := tmp.staticCallee(call); fn != nil {
						counts[fn]++
					}
				}
				return true
			})
		}
		return p.inlineRoundD(round, func(callee *types.Func, _ *ast.FuncDecl) bool { return counts[callee] == 1 }, noDelete)
	case "targeted":
		want := map[string]bool{}
		for _, t := range targets {
			want[t] = true
		}
		return p.inlineRoundC(round, func(_ *types.Func, caller *ast.FuncDecl) bool { return want[declDisplayName(caller)] }, func(caller *ast.FuncDecl) bool { return want[declDisplayName(caller)] }, noDelete)
	case "callee":
		// the calls OF the named functions, wherever they are
		want := map[string]bool{}
		for _, t := range targets {
			want[t] = true
		}
		return p.inlineRoundD(round, func(callee *types.Func, _ *ast.FuncDecl) bool { return want[funcDisplayName(callee)] }, noDelete)
	default:
		return p.inlineRoundD(round, nil, noDelete)
	}
}

// funcDisplayName renders a function object like Program.fname renders its SSA function.
func funcDisplayName(fn *types.Func) string {
	sig := fn.Type().(*types.Signature)
	if sig.Recv() == nil {
		return fn.Name()
	}
	t := sig.Recv().Type()
	ptr := false
	if pt, ok := t.(*types.Pointer); ok {
		ptr = true
		t = pt.Elem()
	}
	name := ""
	if n, ok := types.Unalias(t).(*types.Named); ok {
		name = n.Obj().Name()
	}
	if ptr {
		return "(*" + name + ")." + fn.Name()
	}
	return "(" + name + ")." + fn.Name()
}
