package main

import (
	"go/constant"
	"go/token"
	"go/types"
	"strings"

	"golang.org/x/tools/go/ssa"
)

// ---------------------------------------------------------------------------
// calls

// callCommon returns the CallCommon of a Call/Defer/Go instruction, or nil.
func callCommon(i ssa.Instruction) *ssa.CallCommon {
	if c, ok := i.(ssa.CallInstruction); ok {
		return c.Common()
	}
	return nil
}

// staticCallee returns the statically known callee of a call (also through an immediately
// applied or stored-once closure), or nil.
func staticCallee(c *ssa.CallCommon) *ssa.Function {
	if c == nil {
		return nil
	}
	if f := c.StaticCallee(); f != nil {
		return f
	}
	return nil
}

// calleeName is the full name of the called function or interface method:
// "strings.Index", "(*sync.RWMutex).RLock", "(net/http.ResponseWriter).WriteHeader",
// "(net/http.Header).Get". Empty for calls of function values and builtins.
func calleeName(c *ssa.CallCommon) string {
	if c == nil {
		return ""
	}
	if c.IsInvoke() {
		return c.Method.FullName()
	}
	if f := c.StaticCallee(); f != nil {
		if o := f.Object(); o != nil {
			if tf, ok := o.(*types.Func); ok {
				return tf.FullName()
			}
		}
		// closures and synthetic functions
		return f.String()
	}
	if b, ok := c.Value.(*ssa.Builtin); ok {
		return "builtin." + b.Name()
	}
	return ""
}

// shortCallee strips the module path from calleeName for readable keys.
func shortCallee(c *ssa.CallCommon) string {
	n := calleeName(c)
	n = strings.ReplaceAll(n, modulePath+"/", "")
	n = strings.ReplaceAll(n, modulePath+".", "")
	n = strings.ReplaceAll(n, modulePath, "restful")
	return n
}

// isCall reports whether instruction i is a (non-deferred, non-go) call to one of names.
func isCallTo(i ssa.Instruction, names ...string) bool {
	c := callCommon(i)
	if c == nil {
		return false
	}
	n := calleeName(c)
	for _, x := range names {
		if n == x {
			return true
		}
	}
	return false
}

// callArgs returns the arguments of the call including the receiver as element 0 for
// both invoke-mode calls and static method calls.
func callArgs(c *ssa.CallCommon) []ssa.Value {
	if c.IsInvoke() {
		return append([]ssa.Value{c.Value}, c.Args...)
	}
	return c.Args
}

// isBuiltinCall reports a call of builtin name (append, len, panic, recover, copy, ...).
func isBuiltinCall(i ssa.Instruction, name string) bool {
	c := callCommon(i)
	if c == nil {
		return false
	}
	b, ok := c.Value.(*ssa.Builtin)
	return ok && b.Name() == name
}

// isDynamicCall reports a call through a function value (not static, not invoke, not builtin).
func isDynamicCall(c *ssa.CallCommon) bool {
	if c == nil || c.IsInvoke() {
		return false
	}
	if c.StaticCallee() != nil {
		return false
	}
	if _, ok := c.Value.(*ssa.Builtin); ok {
		return false
	}
	return true
}

// ---------------------------------------------------------------------------
// values

// strip peels representation-only conversions.
func strip(v ssa.Value) ssa.Value {
	for {
		switch x := v.(type) {
		case *ssa.ChangeType:
			v = x.X
		case *ssa.ChangeInterface:
			v = x.X
		case *ssa.MakeInterface:
			v = x.X
		default:
			return v
		}
	}
}

func constStr(v ssa.Value) (string, bool) {
	c, ok := strip(v).(*ssa.Const)
	if !ok || c.Value == nil || c.Value.Kind() != constant.String {
		return "", false
	}
	return constant.StringVal(c.Value), true
}

func constInt(v ssa.Value) (int64, bool) {
	c, ok := strip(v).(*ssa.Const)
	if !ok || c.Value == nil || c.Value.Kind() != constant.Int {
		return 0, false
	}
	n, exact := constant.Int64Val(c.Value)
	return n, exact
}

func constBool(v ssa.Value) (bool, bool) {
	c, ok := strip(v).(*ssa.Const)
	if !ok || c.Value == nil || c.Value.Kind() != constant.Bool {
		return false, false
	}
	return constant.BoolVal(c.Value), true
}

func isNilConst(v ssa.Value) bool {
	c, ok := strip(v).(*ssa.Const)
	return ok && c.Value == nil
}

// fieldLoad matches a read of a struct field: either *(&x.f) or x.f on a struct value.
// It returns the base (pointer or struct value) and the field.
func fieldLoad(v ssa.Value) (base ssa.Value, fld *types.Var, ok bool) {
	switch x := v.(type) {
	case *ssa.UnOp:
		if x.Op != token.MUL {
			return nil, nil, false
		}
		if fa, ok := x.X.(*ssa.FieldAddr); ok {
			return fa.X, fieldOfAddr(fa), true
		}
	case *ssa.Field:
		st := x.X.Type().Underlying().(*types.Struct)
		return x.X, st.Field(x.Field), true
	}
	return nil, nil, false
}

func fieldOfAddr(fa *ssa.FieldAddr) *types.Var {
	pt := fa.X.Type().Underlying().(*types.Pointer)
	st := pt.Elem().Underlying().(*types.Struct)
	return st.Field(fa.Field)
}

// fieldName renders "Type.field" for a field variable given the struct it was found in.
func fieldKey(base ssa.Value, f *types.Var) string {
	t := base.Type()
	if pt, ok := t.Underlying().(*types.Pointer); ok {
		t = pt.Elem()
	}
	return typeShort(t) + "." + f.Name()
}

func typeShort(t types.Type) string {
	s := types.TypeString(t, func(p *types.Package) string {
		if p.Path() == modulePath {
			return ""
		}
		if p.Path() == modulePath+"/log" {
			return "log"
		}
		return p.Name()
	})
	return s
}

// isNamed reports whether t (after stripping one pointer) is the named type pkgpath.name.
func isNamed(t types.Type, pkgpath, name string) bool {
	if pt, ok := t.(*types.Pointer); ok {
		t = pt.Elem()
	}
	n, ok := t.(*types.Named)
	if !ok {
		// aliases
		t = types.Unalias(t)
		n, ok = t.(*types.Named)
		if !ok {
			return false
		}
	}
	o := n.Obj()
	if o.Name() != name {
		return false
	}
	if o.Pkg() == nil {
		return pkgpath == ""
	}
	return o.Pkg().Path() == pkgpath
}

func isRestfulNamed(t types.Type, name string) bool { return isNamed(t, modulePath, name) }

// ---------------------------------------------------------------------------
// instruction iteration

func eachInstr(fn *ssa.Function, f func(ssa.Instruction)) {
	for _, b := range fn.Blocks {
		for _, i := range b.Instrs {
			f(i)
		}
	}
}

// withClosures returns fn and, recursively, all closures defined in it.
func withClosures(fn *ssa.Function) []*ssa.Function {
	out := []*ssa.Function{fn}
	for _, a := range fn.AnonFuncs {
		out = append(out, withClosures(a)...)
	}
	return out
}

// indexInBlock returns the position of i within its block.
func indexInBlock(i ssa.Instruction) int {
	for k, j := range i.Block().Instrs {
		if j == i {
			return k
		}
	}
	return -1
}

// instrDominates reports whether a is executed before b on every path reaching b
// (same function).
func instrDominates(a, b ssa.Instruction) bool {
	if a.Block() == b.Block() {
		return indexInBlock(a) < indexInBlock(b)
	}
	return a.Block().Dominates(b.Block())
}

// reachableFrom computes the set of blocks reachable from the successors of `from`
// (or from `from` itself when inclusive) without entering blocks in `avoid`.
func reachableBlocks(starts []*ssa.BasicBlock, avoid map[*ssa.BasicBlock]bool) map[*ssa.BasicBlock]bool {
	seen := map[*ssa.BasicBlock]bool{}
	var stack []*ssa.BasicBlock
	for _, s := range starts {
		if !avoid[s] && !seen[s] {
			seen[s] = true
			stack = append(stack, s)
		}
	}
	for len(stack) > 0 {
		b := stack[len(stack)-1]
		stack = stack[:len(stack)-1]
		for _, s := range b.Succs {
			if !avoid[s] && !seen[s] {
				seen[s] = true
				stack = append(stack, s)
			}
		}
	}
	return seen
}

// canReachInstr reports whether instruction b can execute after instruction a
// (same function, any path, a itself excluded). Loops are honoured.
func canReach(a, b ssa.Instruction) bool {
	if a.Block() == b.Block() && indexInBlock(a) < indexInBlock(b) {
		return true
	}
	r := reachableBlocks(a.Block().Succs, nil)
	return r[b.Block()]
}

// canReachAvoiding: can b execute after a on a path that executes none of the stop instructions in between.
func canReachAvoiding(a, b ssa.Instruction, stops []ssa.Instruction) bool {
	// instruction-granular search
	type pt struct {
		b *ssa.BasicBlock
		i int
	}
	stop := map[ssa.Instruction]bool{}
	for _, s := range stops {
		stop[s] = true
	}
	seenBlock := map[*ssa.BasicBlock]bool{}
	var walk func(blk *ssa.BasicBlock, from int) bool
	walk = func(blk *ssa.BasicBlock, from int) bool {
		for k := from; k < len(blk.Instrs); k++ {
			ins := blk.Instrs[k]
			if ins == b {
				return true
			}
			if stop[ins] {
				return false
			}
		}
		for _, s := range blk.Succs {
			if seenBlock[s] {
				continue
			}
			seenBlock[s] = true
			if walk(s, 0) {
				return true
			}
		}
		return false
	}
	return walk(a.Block(), indexInBlock(a)+1)
}

// ---------------------------------------------------------------------------
// branch edges

// edgeCond describes "block is entered only when cond has value pol".
type condFact struct {
	Cond ssa.Value
	Pol  bool
}

// factsAt computes, for every block of fn, the set of branch conditions whose value is
// known on *every* path from the entry to that block (a forward must-analysis over
// If edges). SSA values are immutable, so facts never need invalidation.
func factsAt(fn *ssa.Function) map[*ssa.BasicBlock]map[condFact]bool {
	if fn.Blocks == nil {
		return nil
	}
	in := map[*ssa.BasicBlock]map[condFact]bool{}
	// nil map = TOP (not yet computed)
	in[fn.Blocks[0]] = map[condFact]bool{}
	changed := true
	for changed {
		changed = false
		for _, b := range fn.Blocks {
			if b == fn.Blocks[0] {
				continue
			}
			var acc map[condFact]bool
			first := true
			for _, p := range b.Preds {
				pin, ok := in[p]
				if !ok {
					continue // TOP
				}
				out := map[condFact]bool{}
				for f := range pin {
					out[f] = true
				}
				if iff, ok := p.Instrs[len(p.Instrs)-1].(*ssa.If); ok {
					// an If block with both successors equal gives no fact
					if p.Succs[0] != p.Succs[1] {
						if p.Succs[0] == b {
							addCondFacts(out, iff.Cond, true)
						} else if p.Succs[1] == b {
							addCondFacts(out, iff.Cond, false)
						}
					}
				}
				if first {
					acc = out
					first = false
				} else {
					for f := range acc {
						if !out[f] {
							delete(acc, f)
						}
					}
				}
			}
			if first {
				continue // no computed pred yet
			}
			old, had := in[b]
			if !had || len(old) != len(acc) {
				in[b] = acc
				changed = true
			}
		}
	}
	return in
}

// addCondFacts records cond==pol and what follows structurally (negation).
func addCondFacts(m map[condFact]bool, cond ssa.Value, pol bool) {
	m[condFact{cond, pol}] = true
	if u, ok := cond.(*ssa.UnOp); ok && u.Op == token.NOT {
		addCondFacts(m, u.X, !pol)
	}
}

// phiBoolConsts: if v is a Phi whose incoming values are all boolean constants, return them per edge.
func phiBoolConsts(v ssa.Value) (*ssa.Phi, []bool, bool) {
	phi, ok := v.(*ssa.Phi)
	if !ok {
		return nil, nil, false
	}
	vals := make([]bool, len(phi.Edges))
	for i, e := range phi.Edges {
		b, ok := constBool(e)
		if !ok {
			return nil, nil, false
		}
		vals[i] = b
	}
	return phi, vals, true
}

// ---------------------------------------------------------------------------
// misc

func returnsOf(fn *ssa.Function) []*ssa.Return {
	var out []*ssa.Return
	eachInstr(fn, func(i ssa.Instruction) {
		if r, ok := i.(*ssa.Return); ok {
			out = append(out, r)
		}
	})
	return out
}

// referrers returns the referrers of v (nil-safe).
func referrers(v ssa.Value) []ssa.Instruction {
	r := v.Referrers()
	if r == nil {
		return nil
	}
	return *r
}

func isPointerTo(t types.Type, name string) bool {
	pt, ok := t.Underlying().(*types.Pointer)
	if !ok {
		return false
	}
	return isRestfulNamed(pt.Elem(), name)
}

// funcParam returns the i'th parameter of fn (receiver is 0 for methods), or nil.
func funcParam(fn *ssa.Function, i int) *ssa.Parameter {
	if i < 0 || i >= len(fn.Params) {
		return nil
	}
	return fn.Params[i]
}
