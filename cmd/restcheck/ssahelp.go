package main

import (
	"go/constant"
	"go/token"
	"go/types"
	"strings"

	"golang.org/x/tools/go/ssa"
)

// ---------------------------------------------------------------------------
// calls

// callCommon returns the CallCommon of a Call/Defer/Go instruction, or nil.
func callCommon(i ssa.Instruction) *ssa.CallCommon {
	if c, ok := i.(ssa.CallInstruction); ok {
		return c.Common()
	}
	return nil
}

// staticCallee returns the statically known callee of a call (also through an immediately
// applied or stored-once closure), or nil.
func staticCallee(c *ssa.CallCommon) *ssa.Function {
	if c == nil {
		return nil
	}
	if f := c.StaticCallee(); f != nil {
		return f
	}
	return nil
}

// calleeName is the full name of the called function or interface method:
// "strings.Index", "(*sync.RWMutex).RLock", "(net/http.ResponseWriter).WriteHeader",
// "(net/http.Header).Get". Empty for calls of function values and builtins.
func calleeName(c *ssa.CallCommon) string {
	if c == nil {
		return ""
	}
	if c.IsInvoke() {
		return c.Method.FullName()
	}
	if f := c.StaticCallee(); f != nil {
		if o := f.Object(); o != nil {
			if tf, ok := o.(*types.Func); ok {
				return tf.FullName()
			}
		}
		// closures and synthetic functions
		return f.String()
	}
	if b, ok := c.Value.(*ssa.Builtin); ok {
		return "builtin." + b.Name()
	}
	return ""
}

// shortCallee strips the module path from calleeName for readable keys.
func shortCallee(c *ssa.CallCommon) string {
	n := calleeName(c)
	n = strings.ReplaceAll(n, modulePath+"/", "")
	n = strings.ReplaceAll(n, modulePath+".", "")
	n = strings.ReplaceAll(n, modulePath, "restful")
	return n
}

// isCall reports whether instruction i is a (non-deferred, non-go) call to one of names.
func isCallTo(i ssa.Instruction, names ...string) bool {
	c := callCommon(i)
	if c == nil {
		return false
	}
	n := calleeName(c)
	for _, x := range names {
		if n == x {
			return true
		}
	}
	return false
}

// callArgs returns the arguments of the call including the receiver as element 0 for
// both invoke-mode calls and static method calls.
func callArgs(c *ssa.CallCommon) []ssa.Value {
	if c.IsInvoke() {
		return append([]ssa.Value{c.Value}, c.Args...)
	}
	return c.Args
}

// isBuiltinCall reports a call of builtin name (append, len, panic, recover, copy, ...).
func isBuiltinCall(i ssa.Instruction, name string) bool {
	c := callCommon(i)
	if c == nil {
		return false
	}
	b, ok := c.Value.(*ssa.Builtin)
	return ok && b.Name() == name
}

// isDynamicCall reports a call through a function value (not static, not invoke, not builtin).
func isDynamicCall(c *ssa.CallCommon) bool {
	if c == nil || c.IsInvoke() {
		return false
	}
	if c.StaticCallee() != nil {
		return false
	}
	if _, ok := c.Value.(*ssa.Builtin); ok {
		return false
	}
	return true
}

// ---------------------------------------------------------------------------
// values

// strip peels representation-only conversions.
func strip(v ssa.Value) ssa.Value {
	for {
		switch x := v.(type) {
		case *ssa.ChangeType:
			v = x.X
		case *ssa.ChangeInterface:
			v = x.X
		case *ssa.MakeInterface:
			v = x.X
		default:
			return v
		}
	}
}

func constStr(v ssa.Value) (string, bool) {
	c, ok := strip(v).(*ssa.Const)
	if !ok || c.Value == nil || c.Value.Kind() != constant.String {
		return "", false
	}
	return constant.StringVal(c.Value), true
}

func constInt(v ssa.Value) (int64, bool) {
	c, ok := strip(v).(*ssa.Const)
	if !ok || c.Value == nil || c.Value.Kind() != constant.Int {
		return 0, false
	}
	n, exact := constant.Int64Val(c.Value)
	return n, exact
}

func constBool(v ssa.Value) (bool, bool) {
	c, ok := strip(v).(*ssa.Const)
	if !ok || c.Value == nil || c.Value.Kind() != constant.Bool {
		return false, false
	}
	return constant.BoolVal(c.Value), true
}

func isNilConst(v ssa.Value) bool {
	c, ok := strip(v).(*ssa.Const)
	return ok && c.Value == nil
}

// fieldLoad matches a read of a struct field: either *(&x.f) or x.f on a struct value.
// It returns the base (pointer or struct value) and the field.
func fieldLoad(v ssa.Value) (base ssa.Value, fld *types.Var, ok bool) {
	switch x := v.(type) {
	case *ssa.UnOp:
		if x.Op != token.MUL {
			return nil, nil, false
		}
		if fa, ok := x.X.(*ssa.FieldAddr); ok {
			if f := fieldOfAddr(fa); f != nil {
				return fa.X, f, true
			}
			return nil, nil, false
		}
	case *ssa.Field:
		if x.X == nil || x.X.Type() == nil {
			return nil, nil, false
		}
		st, ok := x.X.Type().Underlying().(*types.Struct)
		if !ok || x.Field >= st.NumFields() {
			return nil, nil, false
		}
		return x.X, st.Field(x.Field), true
	}
	return nil, nil, false
}

func fieldOfAddr(fa *ssa.FieldAddr) *types.Var {
	// synthetic nodes (derived facts over helper bodies) may carry an operand whose type cannot be recovered
	if fa == nil || fa.X == nil || fa.X.Type() == nil {
		return nil
	}
	pt, ok := fa.X.Type().Underlying().(*types.Pointer)
	if !ok {
		return nil
	}
	st, ok := pt.Elem().Underlying().(*types.Struct)
	if !ok || fa.Field >= st.NumFields() {
		return nil
	}
	return st.Field(fa.Field)
}

// fieldName renders "Type.field" for a field variable given the struct it was found in.
func fieldKey(base ssa.Value, f *types.Var) string {
	t := base.Type()
	if pt, ok := t.Underlying().(*types.Pointer); ok {
		t = pt.Elem()
	}
	return typeShort(t) + "." + f.Name()
}

func typeShort(t types.Type) string {
	s := types.TypeString(t, func(p *types.Package) string {
		if p.Path() == modulePath {
			return ""
		}
		if p.Path() == modulePath+"/log" {
			return "log"
		}
		return p.Name()
	})
	return s
}

// isNamed reports whether t (after stripping one pointer) is the named type pkgpath.name.
func isNamed(t types.Type, pkgpath, name string) bool {
	if pt, ok := t.(*types.Pointer); ok {
		t = pt.Elem()
	}
	n, ok := t.(*types.Named)
	if !ok {
		// aliases
		t = types.Unalias(t)
		n, ok = t.(*types.Named)
		if !ok {
			return false
		}
	}
	o := n.Obj()
	if o.Name() != name {
		return false
	}
	if o.Pkg() == nil {
		return pkgpath == ""
	}
	return o.Pkg().Path() == pkgpath
}

func isRestfulNamed(t types.Type, name string) bool { return isNamed(t, modulePath, name) }

// ---------------------------------------------------------------------------
// instruction iteration

func eachInstr(fn *ssa.Function, f func(ssa.Instruction)) {
	for _, b := range fn.Blocks {
		for _, i := range b.Instrs {
			f(i)
		}
	}
}

// withClosures returns fn and, recursively, all closures defined in it.
func withClosures(fn *ssa.Function) []*ssa.Function {
	out := []*ssa.Function{fn}
	for _, a := range fn.AnonFuncs {
		out = append(out, withClosures(a)...)
	}
	return out
}

// indexInBlock returns the position of i within its block.
func indexInBlock(i ssa.Instruction) int {
	for k, j := range i.Block().Instrs {
		if j == i {
			return k
		}
	}
	return -1
}

// instrDominates reports whether a is executed before b on every path reaching b
// (same function).
func instrDominates(a, b ssa.Instruction) bool {
	if a.Block() == b.Block() {
		return indexInBlock(a) < indexInBlock(b)
	}
	return a.Block().Dominates(b.Block())
}

// reachableFrom computes the set of blocks reachable from the successors of `from`
// (or from `from` itself when inclusive) without entering blocks in `avoid`.
func reachableBlocks(starts []*ssa.BasicBlock, avoid map[*ssa.BasicBlock]bool) map[*ssa.BasicBlock]bool {
	// Edge-sensitive (DESIGN §2.1 A-cfg): a block that branches on a phi of its own whose edge from the
	// predecessor we arrive through is a boolean constant takes only the corresponding successor. This is what
	// `found = true; break ... if found` and an inlined `return false` (normal forms) compile to.
	type node struct{ b, from *ssa.BasicBlock }
	seenN := map[node]bool{}
	seen := map[*ssa.BasicBlock]bool{}
	var stack []node
	for _, s := range starts {
		if !avoid[s] {
			stack = append(stack, node{s, nil})
		}
	}
	for len(stack) > 0 {
		n := stack[len(stack)-1]
		stack = stack[:len(stack)-1]
		if seenN[n] {
			continue
		}
		seenN[n] = true
		seen[n.b] = true
		for _, s := range threadedSuccs(n.b, n.from) {
			if !avoid[s] {
				stack = append(stack, node{s, n.b})
			}
		}
	}
	return seen
}

// reachableAfter: the blocks control can reach after leaving b (b itself only through a cycle).
func reachableAfter(b *ssa.BasicBlock, avoid map[*ssa.BasicBlock]bool) map[*ssa.BasicBlock]bool {
	type node struct{ b, from *ssa.BasicBlock }
	seenN := map[node]bool{}
	seen := map[*ssa.BasicBlock]bool{}
	var stack []node
	for _, s := range b.Succs {
		if !avoid[s] {
			stack = append(stack, node{s, b})
		}
	}
	for len(stack) > 0 {
		n := stack[len(stack)-1]
		stack = stack[:len(stack)-1]
		if seenN[n] {
			continue
		}
		seenN[n] = true
		seen[n.b] = true
		for _, s := range threadedSuccs(n.b, n.from) {
			if !avoid[s] {
				stack = append(stack, node{s, n.b})
			}
		}
	}
	return seen
}

// threadedSuccs: the successors of b that control can take when b was entered from `from` (nil: unknown).
func threadedSuccs(b, from *ssa.BasicBlock) []*ssa.BasicBlock {
	if from == nil || len(b.Instrs) == 0 {
		return b.Succs
	}
	iff, ok := b.Instrs[len(b.Instrs)-1].(*ssa.If)
	if !ok {
		return b.Succs
	}
	cond := iff.Cond
	neg := false
	for {
		u, ok := cond.(*ssa.UnOp)
		if !ok || u.Op != token.NOT {
			break
		}
		cond, neg = u.X, !neg
	}
	phi, ok := cond.(*ssa.Phi)
	if !ok || phi.Block() != b {
		return b.Succs
	}
	var out []*ssa.BasicBlock
	add := func(s *ssa.BasicBlock) {
		for _, o := range out {
			if o == s {
				return
			}
		}
		out = append(out, s)
	}
	for k, p := range b.Preds {
		if p != from || k >= len(phi.Edges) {
			continue
		}
		if v, ok := constBool(phi.Edges[k]); ok {
			if v != neg {
				add(b.Succs[0])
			} else {
				add(b.Succs[1])
			}
		} else {
			return b.Succs
		}
	}
	if len(out) == 0 {
		return b.Succs
	}
	return out
}

// canReachInstr reports whether instruction b can execute after instruction a
// (same function, any path, a itself excluded). Loops are honoured.
func canReach(a, b ssa.Instruction) bool {
	if a.Block() == b.Block() && indexInBlock(a) < indexInBlock(b) {
		return true
	}
	r := reachableAfter(a.Block(), nil)
	return r[b.Block()]
}

// canReachAvoiding: can b execute after a on a path that executes none of the stop instructions in between.
func canReachAvoiding(a, b ssa.Instruction, stops []ssa.Instruction) bool {
	// instruction-granular search
	type pt struct {
		b *ssa.BasicBlock
		i int
	}
	stop := map[ssa.Instruction]bool{}
	for _, s := range stops {
		stop[s] = true
	}
	seenBlock := map[*ssa.BasicBlock]bool{}
	var walk func(blk *ssa.BasicBlock, from int) bool
	walk = func(blk *ssa.BasicBlock, from int) bool {
		for k := from; k < len(blk.Instrs); k++ {
			ins := blk.Instrs[k]
			if ins == b {
				return true
			}
			if stop[ins] {
				return false
			}
		}
		for _, s := range blk.Succs {
			if seenBlock[s] {
				continue
			}
			seenBlock[s] = true
			if walk(s, 0) {
				return true
			}
		}
		return false
	}
	return walk(a.Block(), indexInBlock(a)+1)
}

// ---------------------------------------------------------------------------
// branch edges

// edgeCond describes "block is entered only when cond has value pol".
type condFact struct {
	Cond ssa.Value
	Pol  bool
}

// factsAt computes, for every block of fn, the set of branch conditions whose value is
// known on *every* path from the entry to that block (a forward must-analysis over
// If edges). SSA values are immutable, so facts never need invalidation.
var factsCache = map[*ssa.Function]map[*ssa.BasicBlock]map[condFact]bool{}

var factsBusy = map[*ssa.Function]bool{}

func factsAt(fn *ssa.Function) map[*ssa.BasicBlock]map[condFact]bool {
	if r, ok := factsCache[fn]; ok {
		return r
	}
	if factsBusy[fn] {
		return nil // recursive helper chain: no derived facts through it
	}
	factsBusy[fn] = true
	r := factsAt1(fn)
	factsBusy[fn] = false
	factsCache[fn] = r
	return r
}

func factsAt1(fn *ssa.Function) map[*ssa.BasicBlock]map[condFact]bool {
	if fn.Blocks == nil {
		return nil
	}
	in := map[*ssa.BasicBlock]map[condFact]bool{}
	// nil map = TOP (not yet computed)
	in[fn.Blocks[0]] = map[condFact]bool{}
	// comparisons that occur more than once with the same operands
	twins := map[synthKey][]*ssa.BinOp{}
	for _, b := range fn.Blocks {
		for _, i := range b.Instrs {
			if bo, ok := i.(*ssa.BinOp); ok {
				switch bo.Op {
				case token.EQL, token.NEQ, token.LSS, token.LEQ, token.GTR, token.GEQ:
					k := synthKey{bo.Op, canonOperand(bo.X), canonOperand(bo.Y)}
					twins[k] = append(twins[k], bo)
				}
			}
		}
	}
	for k, v := range twins {
		if len(v) < 2 {
			delete(twins, k)
		}
	}
	changed := true
	for changed {
		changed = false
		for _, b := range fn.Blocks {
			if b == fn.Blocks[0] {
				continue
			}
			var acc map[condFact]bool
			first := true
			for _, p := range b.Preds {
				pin, ok := in[p]
				if !ok {
					continue // TOP
				}
				out := map[condFact]bool{}
				for f := range pin {
					out[f] = true
				}
				if iff, ok := p.Instrs[len(p.Instrs)-1].(*ssa.If); ok {
					// an If block with both successors equal gives no fact
					if p.Succs[0] != p.Succs[1] {
						if p.Succs[0] == b {
							addCondFacts(out, iff.Cond, true)
						} else if p.Succs[1] == b {
							addCondFacts(out, iff.Cond, false)
						}
					}
				}
				phiImplied(out, in)
				// go/ssa does not share equal expressions: a condition tested twice (`case a == -1 && b == -1:` then
				// `case a == -1:`) is two instructions. What is known about one comparison is known about every
				// comparison of the same operands; an edge on which a condition would be both true and false is not taken.
				if len(twins) > 0 {
					for f := range out {
						if bo, ok := f.Cond.(*ssa.BinOp); ok {
							for _, t := range twins[synthKey{bo.Op, canonOperand(bo.X), canonOperand(bo.Y)}] {
								if t != bo {
									out[condFact{t, f.Pol}] = true
								}
							}
						}
					}
					infeasible := false
					for f := range out {
						if f.Pol && out[condFact{f.Cond, false}] {
							infeasible = true
							break
						}
					}
					if infeasible {
						continue
					}
				}
				if first {
					acc = out
					first = false
				} else {
					for f := range acc {
						if !out[f] {
							delete(acc, f)
						}
					}
				}
			}
			if first {
				continue // no computed pred yet
			}
			old, had := in[b]
			if !had || len(old) != len(acc) {
				in[b] = acc
				changed = true
			}
		}
	}
	for _, m := range in {
		deriveFacts(m)
	}
	return in
}

// phiImplied: a boolean phi known to be true (false) came through an edge whose value is not the opposite constant.
// What holds on every such edge - the facts at the end of the predecessor, the condition of the edge, and the
// edge's own value - holds here too (facts speak about SSA values, which never change). This is what
// `ok := false; if a { if b { ok = true } }; if ok {` and an inlined `return "", false` compile to.
func phiImplied(out map[condFact]bool, in map[*ssa.BasicBlock]map[condFact]bool) {
	var phis []condFact
	for f := range out {
		if _, ok := f.Cond.(*ssa.Phi); ok {
			phis = append(phis, f)
		}
	}
	for n := 0; n < 4 && len(phis) > 0; n++ {
		var next []condFact
		for _, f := range phis {
			phi := f.Cond.(*ssa.Phi)
			if b, ok := phi.Type().Underlying().(*types.Basic); !ok || b.Kind() != types.Bool {
				continue
			}
			pb := phi.Block()
			var common map[condFact]bool
			known := true
			for k, e := range phi.Edges {
				if v, isC := constBool(e); isC && v != f.Pol {
					continue // this edge cannot have been taken
				}
				if k >= len(pb.Preds) {
					known = false
					break
				}
				q := pb.Preds[k]
				qin, ok := in[q]
				if !ok {
					continue // TOP: not yet computed, identity of the intersection
				}
				s := map[condFact]bool{}
				for g := range qin {
					s[g] = true
				}
				if iff, ok := q.Instrs[len(q.Instrs)-1].(*ssa.If); ok && q.Succs[0] != q.Succs[1] {
					if q.Succs[0] == pb {
						addCondFacts(s, iff.Cond, true)
					} else if q.Succs[1] == pb {
						addCondFacts(s, iff.Cond, false)
					}
				}
				if _, isC := constBool(e); !isC {
					addCondFacts(s, e, f.Pol)
				}
				if common == nil {
					common = s
				} else {
					for g := range common {
						if !s[g] {
							delete(common, g)
						}
					}
				}
			}
			if !known {
				continue
			}
			for g := range common {
				if !out[g] {
					out[g] = true
					if _, ok := g.Cond.(*ssa.Phi); ok {
						next = append(next, g)
					}
				}
			}
		}
		phis = next
	}
}

// ---------------------------------------------------------------------------
// derived facts: every recogniser sees a comparison in all its equivalent spellings
// (a != b true  ==  a == b false  ==  b != a true ...), and a call of a trivial boolean
// helper (`func isX(w) bool { _, ok := w.(*T); return ok }`) as the expression it returns.
// Derived conditions are synthetic, interned SSA nodes: they never appear in a function body.

type synthKey struct {
	op   token.Token
	x, y ssa.Value
}

var synthBinOps = map[synthKey]*ssa.BinOp{}
var synthAsserts = map[synthKey]*ssa.Extract{}

// canonOperand: constants are separate objects at every use; equal constants get one representative so that
// comparisons with the same operands can be recognised.
var canonConsts = map[string]*ssa.Const{}

func canonOperand(v ssa.Value) ssa.Value {
	c, ok := v.(*ssa.Const)
	if !ok {
		return v
	}
	val := "nil"
	if c.Value != nil {
		val = c.Value.ExactString()
	}
	k := c.Type().String() + "|" + val
	if r, ok := canonConsts[k]; ok {
		return r
	}
	canonConsts[k] = c
	return c
}

func synthBinOp(op token.Token, x, y ssa.Value) *ssa.BinOp {
	k := synthKey{op, x, y}
	if b, ok := synthBinOps[k]; ok {
		return b
	}
	b := &ssa.BinOp{Op: op, X: x, Y: y}
	synthBinOps[k] = b
	return b
}

var complementOp = map[token.Token]token.Token{token.EQL: token.NEQ, token.NEQ: token.EQL, token.LSS: token.GEQ, token.GEQ: token.LSS, token.GTR: token.LEQ, token.LEQ: token.GTR}
var mirrorOp = map[token.Token]token.Token{token.EQL: token.EQL, token.NEQ: token.NEQ, token.LSS: token.GTR, token.GTR: token.LSS, token.LEQ: token.GEQ, token.GEQ: token.LEQ}

func deriveFacts(m map[condFact]bool) {
	var work []condFact
	for f := range m {
		work = append(work, f)
	}
	add := func(f condFact) {
		if !m[f] {
			m[f] = true
			work = append(work, f)
		}
	}
	for len(work) > 0 {
		f := work[len(work)-1]
		work = work[:len(work)-1]
		switch x := f.Cond.(type) {
		case *ssa.BinOp:
			if c, ok := complementOp[x.Op]; ok {
				add(condFact{synthBinOp(c, x.X, x.Y), !f.Pol})
				add(condFact{synthBinOp(mirrorOp[x.Op], x.Y, x.X), f.Pol})
			}
		case *ssa.Call:
			if e := trivialBoolHelper(x); e != nil {
				addCondFactsTo(add, e, f.Pol)
			} else if f.Pol {
				for _, pf := range positiveFactsOfHelper(x) {
					addCondFactsTo(add, pf.Cond, pf.Pol)
				}
			}
		}
	}
}

// positiveFactsOfHelper: for a call of a small, loop-free boolean helper of the same package
// (`func same(r Route, m, p string) bool { return r.Method == m && r.Path == p }`), the conditions that
// hold on EVERY path to a true answer, rewritten over the call's arguments.
func positiveFactsOfHelper(call *ssa.Call) []condFact {
	cal := call.Call.StaticCallee()
	if cal == nil || cal.Blocks == nil || len(cal.Blocks) > 8 || cal.Pkg == nil || call.Parent() == nil || cal.Pkg != call.Parent().Pkg || cal == call.Parent() {
		return nil
	}
	res := cal.Signature.Results()
	if res.Len() != 1 {
		return nil
	}
	if b, ok := res.At(0).Type().Underlying().(*types.Basic); !ok || b.Kind() != types.Bool {
		return nil
	}
	for _, b := range cal.Blocks {
		if reachableAfter(b, nil)[b] {
			return nil // loops are summarised elsewhere
		}
	}
	facts := factsAt(cal)
	var acc map[condFact]bool
	merge := func(m map[condFact]bool) {
		if acc == nil {
			acc = m
			return
		}
		for f := range acc {
			if !m[f] {
				delete(acc, f)
			}
		}
	}
	for _, b := range cal.Blocks {
		ret, ok := b.Instrs[len(b.Instrs)-1].(*ssa.Return)
		if !ok || len(ret.Results) != 1 {
			continue
		}
		v := ret.Results[0]
		if cb, isC := constBool(v); isC {
			if cb {
				m := map[condFact]bool{}
				for f := range facts[b] {
					m[f] = true
				}
				merge(m)
			}
			continue
		}
		if phi, ok := v.(*ssa.Phi); ok && phi.Block() == b {
			for k, e := range phi.Edges {
				if cb, isC := constBool(e); isC && !cb {
					continue
				}
				pr := b.Preds[k]
				m := map[condFact]bool{}
				for f := range facts[pr] {
					m[f] = true
				}
				if iff, isIf := pr.Instrs[len(pr.Instrs)-1].(*ssa.If); isIf && pr.Succs[0] != pr.Succs[1] {
					addCondFacts(m, iff.Cond, pr.Succs[0] == b)
				}
				if _, isC := constBool(e); !isC {
					addCondFacts(m, e, true)
				}
				merge(m)
			}
			continue
		}
		m := map[condFact]bool{}
		for f := range facts[b] {
			m[f] = true
		}
		addCondFacts(m, v, true)
		merge(m)
	}
	if len(acc) == 0 {
		return nil
	}
	// rewrite over the arguments
	var out []condFact
	for f := range acc {
		if c := cloneOverArgs(call, cal, f.Cond, 0); c != nil {
			out = append(out, condFact{c, f.Pol})
		}
	}
	return out
}

// cloneOverArgs rewrites an expression of the callee over the call's arguments (parameters are
// replaced by arguments; only comparisons, negations, field reads and constants are supported).
func cloneOverArgs(call *ssa.Call, cal *ssa.Function, v ssa.Value, depth int) ssa.Value {
	if depth > 5 {
		return nil
	}
	for k, prm := range cal.Params {
		if v == ssa.Value(prm) && k < len(call.Call.Args) {
			return call.Call.Args[k]
		}
	}
	switch x := v.(type) {
	case *ssa.Const:
		return x
	case *ssa.BinOp:
		a, b := cloneOverArgs(call, cal, x.X, depth+1), cloneOverArgs(call, cal, x.Y, depth+1)
		if a == nil || b == nil {
			return nil
		}
		return synthBinOp(x.Op, a, b)
	case *ssa.UnOp:
		if x.Op == token.NOT {
			if a := cloneOverArgs(call, cal, x.X, depth+1); a != nil {
				return &ssa.UnOp{Op: token.NOT, X: a}
			}
			return nil
		}
		if x.Op == token.MUL {
			if fa, ok := x.X.(*ssa.FieldAddr); ok {
				// field of a spilled value parameter: (&local).f where local holds the parameter -> arg.f
				if a, isAlloc := fa.X.(*ssa.Alloc); isAlloc {
					for _, r := range referrers(a) {
						if st, ok := r.(*ssa.Store); ok && st.Addr == ssa.Value(a) {
							if base := cloneOverArgs(call, cal, st.Val, depth+1); base != nil {
								if _, isStruct := base.Type().Underlying().(*types.Struct); isStruct {
									return &ssa.Field{X: base, Field: fa.Field}
								}
							}
						}
					}
					return nil
				}
				if base := cloneOverArgs(call, cal, fa.X, depth+1); base != nil {
					return &ssa.UnOp{Op: token.MUL, X: &ssa.FieldAddr{X: base, Field: fa.Field}}
				}
				return nil
			}
			// spilled value parameter: *alloc where alloc holds a parameter
			if a, ok := x.X.(*ssa.Alloc); ok {
				for _, r := range referrers(a) {
					if st, ok := r.(*ssa.Store); ok && st.Addr == ssa.Value(a) {
						return cloneOverArgs(call, cal, st.Val, depth+1)
					}
				}
			}
		}
	case *ssa.Field:
		if base := cloneOverArgs(call, cal, x.X, depth+1); base != nil {
			return &ssa.Field{X: base, Field: x.Field}
		}
	case *ssa.FieldAddr:
		if base := cloneOverArgs(call, cal, x.X, depth+1); base != nil {
			return &ssa.FieldAddr{X: base, Field: x.Field}
		}
	case *ssa.ChangeType:
		return cloneOverArgs(call, cal, x.X, depth+1)
	}
	return nil
}

func addCondFactsTo(add func(condFact), cond ssa.Value, pol bool) {
	add(condFact{cond, pol})
	if u, ok := cond.(*ssa.UnOp); ok && u.Op == token.NOT {
		addCondFactsTo(add, u.X, !pol)
	}
}

// trivialBoolHelper: the call's callee is a one-expression boolean function of its parameters;
// returns that expression over the call's arguments (synthetic), or nil.
func trivialBoolHelper(call *ssa.Call) ssa.Value {
	cal := call.Call.StaticCallee()
	if cal == nil || cal.Blocks == nil || len(cal.Blocks) != 1 || cal.Pkg == nil || call.Parent() == nil || cal.Pkg != call.Parent().Pkg {
		return nil
	}
	ret, ok := cal.Blocks[0].Instrs[len(cal.Blocks[0].Instrs)-1].(*ssa.Return)
	if !ok || len(ret.Results) != 1 {
		return nil
	}
	subst := func(v ssa.Value) ssa.Value {
		for k, prm := range cal.Params {
			if v == ssa.Value(prm) && k < len(call.Call.Args) {
				return call.Call.Args[k]
			}
		}
		return nil
	}
	var clone func(v ssa.Value, depth int) ssa.Value
	clone = func(v ssa.Value, depth int) ssa.Value {
		if depth > 4 {
			return nil
		}
		if a := subst(v); a != nil {
			return a
		}
		switch x := v.(type) {
		case *ssa.Const:
			return x
		case *ssa.BinOp:
			a, b := clone(x.X, depth+1), clone(x.Y, depth+1)
			if a == nil || b == nil {
				return nil
			}
			return synthBinOp(x.Op, a, b)
		case *ssa.UnOp:
			if x.Op == token.NOT {
				a := clone(x.X, depth+1)
				if a == nil {
					return nil
				}
				return &ssa.UnOp{Op: token.NOT, X: a}
			}
			if x.Op == token.MUL {
				if fa, ok := x.X.(*ssa.FieldAddr); ok {
					base := clone(fa.X, depth+1)
					if base == nil {
						return nil
					}
					return &ssa.UnOp{Op: token.MUL, X: &ssa.FieldAddr{X: base, Field: fa.Field}}
				}
			}
		case *ssa.Extract:
			if ta, ok := x.Tuple.(*ssa.TypeAssert); ok && ta.CommaOk {
				a := clone(ta.X, depth+1)
				if a == nil {
					return nil
				}
				k := synthKey{token.Token(x.Index), a, nil}
				if e, ok := synthAsserts[k]; ok && e.Tuple.(*ssa.TypeAssert).AssertedType == ta.AssertedType {
					return e
				}
				e := &ssa.Extract{Tuple: &ssa.TypeAssert{X: a, AssertedType: ta.AssertedType, CommaOk: true}, Index: x.Index}
				synthAsserts[k] = e
				return e
			}
		case *ssa.ChangeType:
			return clone(x.X, depth+1)
		}
		return nil
	}
	return clone(ret.Results[0], 0)
}

// addCondFacts records cond==pol and what follows structurally (negation).
func addCondFacts(m map[condFact]bool, cond ssa.Value, pol bool) {
	m[condFact{cond, pol}] = true
	if u, ok := cond.(*ssa.UnOp); ok && u.Op == token.NOT {
		addCondFacts(m, u.X, !pol)
	}
}

// phiBoolConsts: if v is a Phi whose incoming values are all boolean constants, return them per edge.
func phiBoolConsts(v ssa.Value) (*ssa.Phi, []bool, bool) {
	phi, ok := v.(*ssa.Phi)
	if !ok {
		return nil, nil, false
	}
	vals := make([]bool, len(phi.Edges))
	for i, e := range phi.Edges {
		b, ok := constBool(e)
		if !ok {
			return nil, nil, false
		}
		vals[i] = b
	}
	return phi, vals, true
}

// refinePhi: the value a phi must have at a point where `facts` hold. An edge is infeasible when a boolean phi of
// the same block, whose value is known, has the opposite constant on it, or - for a slice or pointer phi known to be
// non-empty / non-nil - when the edge is the nil constant. With one feasible edge left the phi is that edge's value.
func refinePhi(v ssa.Value, facts map[condFact]bool) ssa.Value {
	for depth := 0; depth < 4; depth++ {
		ph, ok := strip(v).(*ssa.Phi)
		if !ok {
			return v
		}
		feasible := make([]bool, len(ph.Edges))
		for k := range feasible {
			feasible[k] = true
		}
		nonNil := false
		for f := range facts {
			switch x := f.Cond.(type) {
			case *ssa.Phi:
				if x.Block() == ph.Block() && len(x.Edges) == len(ph.Edges) {
					for k, e := range x.Edges {
						if b, isC := constBool(e); isC && b != f.Pol {
							feasible[k] = false
						}
					}
				}
			case *ssa.BinOp:
				// len(phi) != 0, len(phi) > 0, phi != nil
				if !f.Pol {
					continue
				}
				if call, ok := strip(x.X).(*ssa.Call); ok && isBuiltinCall(call, "len") && strip(call.Call.Args[0]) == ssa.Value(ph) {
					if n, ok := constInt(x.Y); ok && ((x.Op == token.NEQ && n == 0) || (x.Op == token.GTR && n == 0) || (x.Op == token.GEQ && n == 1)) {
						nonNil = true
					}
				}
				if x.Op == token.NEQ && strip(x.X) == ssa.Value(ph) && isNilConst(x.Y) {
					nonNil = true
				}
			}
		}
		var only ssa.Value
		n := 0
		for k, e := range ph.Edges {
			if !feasible[k] || (nonNil && isNilConst(e)) {
				continue
			}
			n++
			only = e
		}
		if n != 1 {
			return v
		}
		v = only
	}
	return v
}

// ---------------------------------------------------------------------------
// virtual returns: `return x, ok` where x and ok are phis of the returning block is, per incoming edge, a return of
// that edge's values under that edge's facts (this is what several `return a, b` statements become after a helper
// was inlined into its caller, or after results were collected in variables).

type vReturn struct {
	Ret     *ssa.Return
	Results []ssa.Value
	Facts   map[condFact]bool
	Block   *ssa.BasicBlock // the block the values come from
}

func virtualReturns(fn *ssa.Function) []vReturn {
	facts := factsAt(fn)
	var out []vReturn
	var expand func(vr vReturn, depth int)
	expand = func(vr vReturn, depth int) {
		// a result that is a phi of the returning block or of a block dominating it
		var ph *ssa.Phi
		if depth < 4 && len(out) < 256 {
			for _, r := range vr.Results {
				x, ok := r.(*ssa.Phi)
				if !ok {
					// !(a || b) is returned as the negation of a phi
					if u, isNot := r.(*ssa.UnOp); isNot && u.Op == token.NOT {
						x, ok = u.X.(*ssa.Phi)
					}
				}
				if ok && (x.Block() == vr.Block || x.Block().Dominates(vr.Ret.Block())) {
					ph = x
					break
				}
			}
		}
		if ph == nil {
			out = append(out, vr)
			return
		}
		pb := ph.Block()
		for k, pr := range pb.Preds {
			// an edge on which a boolean phi of that block has the value known to be wrong was not taken
			infeasible := false
			for f := range vr.Facts {
				if bp, ok := f.Cond.(*ssa.Phi); ok && bp.Block() == pb && k < len(bp.Edges) {
					if v, isC := constBool(bp.Edges[k]); isC && v != f.Pol {
						infeasible = true
					}
				}
			}
			if infeasible {
				continue
			}
			res := make([]ssa.Value, len(vr.Results))
			for i, r := range vr.Results {
				res[i] = r
				if x, ok := r.(*ssa.Phi); ok && x.Block() == pb && k < len(x.Edges) {
					res[i] = x.Edges[k]
				}
				if u, isNot := r.(*ssa.UnOp); isNot && u.Op == token.NOT {
					if x, ok := u.X.(*ssa.Phi); ok && x.Block() == pb && k < len(x.Edges) {
						res[i] = negatedValue(x.Edges[k])
					}
				}
			}
			f := map[condFact]bool{}
			if pb != vr.Block {
				// the facts at the return still hold: they speak about values
				for g := range vr.Facts {
					f[g] = true
				}
			}
			for g := range facts[pr] {
				f[g] = true
			}
			if iff, ok := pr.Instrs[len(pr.Instrs)-1].(*ssa.If); ok && pr.Succs[0] != pr.Succs[1] {
				if pr.Succs[0] == pb {
					addCondFacts(f, iff.Cond, true)
				} else if pr.Succs[1] == pb {
					addCondFacts(f, iff.Cond, false)
				}
			}
			deriveFacts(f)
			expand(vReturn{vr.Ret, res, f, pr}, depth+1)
		}
	}
	for _, r := range returnsOf(fn) {
		f := map[condFact]bool{}
		for g := range facts[r.Block()] {
			f[g] = true
		}
		expand(vReturn{r, append([]ssa.Value{}, r.Results...), f, r.Block()}, 0)
	}
	return out
}

// negatedValue: a value that stands for !v (a constant, the complementary comparison, the operand of a negation, or
// a synthetic negation).
var synthNots = map[ssa.Value]*ssa.UnOp{}

func negatedValue(v ssa.Value) ssa.Value {
	if b, isC := constBool(v); isC {
		return ssa.NewConst(constant.MakeBool(!b), types.Typ[types.Bool])
	}
	switch x := v.(type) {
	case *ssa.UnOp:
		if x.Op == token.NOT {
			return x.X
		}
	case *ssa.BinOp:
		if c, ok := complementOp[x.Op]; ok {
			// not for floating point: !(a < b) is not a >= b when one is NaN
			if bt, isBasic := x.X.Type().Underlying().(*types.Basic); !isBasic || bt.Info()&types.IsFloat == 0 {
				return synthBinOp(c, x.X, x.Y)
			}
		}
	}
	if u, ok := synthNots[v]; ok {
		return u
	}
	u := &ssa.UnOp{Op: token.NOT, X: v}
	synthNots[v] = u
	return u
}

// ---------------------------------------------------------------------------
// misc

// resultAt: result k of return r. When the function defers and names its results, `return a, b` stores the values in
// the result variables, runs the deferred calls and returns loads of the variables; the value this return statement
// gave is the last store before the load (same block, or up a chain of single predecessors).
func resultAt(r *ssa.Return, k int) ssa.Value {
	if k >= len(r.Results) {
		return nil
	}
	v := r.Results[k]
	u, ok := v.(*ssa.UnOp)
	if !ok || u.Op != token.MUL {
		return v
	}
	a, ok := u.X.(*ssa.Alloc)
	if !ok {
		return v
	}
	b := u.Block()
	from := indexInBlock(u)
	for hops := 0; b != nil && hops < 6; hops++ {
		for i := from - 1; i >= 0; i-- {
			if st, ok := b.Instrs[i].(*ssa.Store); ok && st.Addr == ssa.Value(a) {
				return st.Val
			}
		}
		if len(b.Preds) != 1 {
			return v
		}
		b = b.Preds[0]
		from = len(b.Instrs)
	}
	return v
}

// singleAssignment: v is a load of a local variable that is assigned exactly once (a variable that lives in memory
// only because a closure captures it): the assigned value. Otherwise v.
func singleAssignment(v ssa.Value) ssa.Value {
	for depth := 0; depth < 3; depth++ {
		u, ok := strip(v).(*ssa.UnOp)
		if !ok || u.Op != token.MUL {
			return v
		}
		a, ok := u.X.(*ssa.Alloc)
		if !ok {
			return v
		}
		var val ssa.Value
		n := 0
		escapes := false
		for _, r := range referrers(a) {
			switch x := r.(type) {
			case *ssa.Store:
				if x.Addr == ssa.Value(a) {
					n++
					val = x.Val
				} else {
					escapes = true
				}
			case *ssa.UnOp, *ssa.DebugRef:
			case *ssa.MakeClosure:
				// captured: the closure may assign it
				if fn, ok := x.Fn.(*ssa.Function); ok {
					for k, b := range x.Bindings {
						if b == ssa.Value(a) && k < len(fn.FreeVars) {
							for _, rr := range referrers(fn.FreeVars[k]) {
								if st, ok := rr.(*ssa.Store); ok && st.Addr == ssa.Value(fn.FreeVars[k]) {
									escapes = true
								}
							}
						}
					}
				}
			default:
				escapes = true
			}
		}
		if n != 1 || escapes || val == nil {
			return v
		}
		v = val
	}
	return v
}

// returnsOf: the return instructions of fn. A function with defer statements has a synthetic "recover" block whose
// return executes only after a deferred call recovered a panic; it is an exit of the function only when some
// function of the module that fn can defer calls recover().
func returnsOf(fn *ssa.Function) []*ssa.Return {
	var out []*ssa.Return
	eachInstr(fn, func(i ssa.Instruction) {
		if r, ok := i.(*ssa.Return); ok {
			if r.Block().Comment == "recover" && fn.Recover == r.Block() && !mayRecover(fn) {
				return
			}
			out = append(out, r)
		}
	})
	return out
}

var mayRecoverCache = map[*ssa.Function]bool{}

// mayRecover: a deferred call of fn can call the builtin recover(): the deferred function is unknown, or it (or a
// closure defined in it) contains a recover() call.
func mayRecover(fn *ssa.Function) bool {
	if v, ok := mayRecoverCache[fn]; ok {
		return v
	}
	res := false
	has := func(g *ssa.Function) bool {
		found := false
		for _, h := range withClosures(g) {
			eachInstr(h, func(i ssa.Instruction) {
				if call, ok := i.(*ssa.Call); ok && isBuiltinCall(call, "recover") {
					found = true
				}
			})
		}
		return found
	}
	for _, b := range fn.Blocks {
		for _, i := range b.Instrs {
			d, ok := i.(*ssa.Defer)
			if !ok {
				continue
			}
			switch v := d.Call.Value.(type) {
			case *ssa.MakeClosure:
				if g, ok := v.Fn.(*ssa.Function); ok && has(g) {
					res = true
				}
			case *ssa.Function:
				if v.Blocks != nil && has(v) {
					res = true
				}
			default:
				if d.Call.IsInvoke() {
					continue // a method of an interface value (Unlock, Close, Release...): library code that does not recover for us
				}
				if _, isBuiltin := v.(*ssa.Builtin); !isBuiltin {
					res = true // a function value of unknown origin
				}
			}
		}
	}
	mayRecoverCache[fn] = res
	return res
}

// referrers returns the referrers of v (nil-safe).
func referrers(v ssa.Value) []ssa.Instruction {
	r := v.Referrers()
	if r == nil {
		return nil
	}
	return *r
}

func isPointerTo(t types.Type, name string) bool {
	pt, ok := t.Underlying().(*types.Pointer)
	if !ok {
		return false
	}
	return isRestfulNamed(pt.Elem(), name)
}

// funcParam returns the i'th parameter of fn (receiver is 0 for methods), or nil.
func funcParam(fn *ssa.Function, i int) *ssa.Parameter {
	if i < 0 || i >= len(fn.Params) {
		return nil
	}
	return fn.Params[i]
}
