// eqsweep is a development tool (not part of any check): it rewrites /repo's non-test sources with one kind of
// behaviour-preserving syntactic transformation applied at EVERY site where it is applicable (if/else inverted,
// De Morgan, guard clauses turned into else branches and back, conditions bound to locals, comparisons mirrored,
// if-chains turned into switches and back, conditions moved into predicate functions, ...). The transformed tree
// must build and pass the repository's suite; restcheck is then run on it, and every alarm it raises is a false
// alarm found without writing a variant by hand (tools/eqsweep.sh, DESIGN 13.7). /repo is only read.
package main

import (
	"bytes"
	"flag"
	"fmt"
	"go/ast"
	"go/format"
	"go/parser"
	"go/printer"
	"go/token"
	"go/types"
	"os"
	"path/filepath"
	"sort"
	"strings"

	"golang.org/x/tools/go/packages"
)

var (
	counter int
	nSites  int
	onlyFn  string
)

func main() {
	repo := flag.String("repo", "/repo", "repository (read only)")
	out := flag.String("out", "", "directory that receives the transformed non-test .go files of the root package")
	kind := flag.String("kind", "", "transformation: invert, demorgan, guard2else, else2guard, cond2local, mirror, lenform, chain2switch, switch2chain, predicate, and2nested, ret2var")
	flag.StringVar(&onlyFn, "func", "", "restrict to the function with this name (Recv.Name or Name)")
	flag.Parse()
	if *out == "" || *kind == "" {
		fmt.Fprintln(os.Stderr, "usage: eqsweep -kind K -out DIR [-repo /repo] [-func F]")
		os.Exit(2)
	}
	cfg := &packages.Config{Mode: packages.NeedName | packages.NeedFiles | packages.NeedSyntax | packages.NeedTypes | packages.NeedTypesInfo | packages.NeedImports | packages.NeedDeps, Dir: *repo, Tests: false,
		ParseFile: func(fset *token.FileSet, filename string, src []byte) (*ast.File, error) {
			// only the doc comments of declarations are kept (a rule reads "Deprecated:"): statements are moved around
			f, err := parser.ParseFile(fset, filename, src, parser.ParseComments)
			if err != nil {
				return f, err
			}
			var keep []*ast.CommentGroup
			for _, d := range f.Decls {
				switch x := d.(type) {
				case *ast.FuncDecl:
					if x.Doc != nil {
						keep = append(keep, x.Doc)
					}
				case *ast.GenDecl:
					if x.Doc != nil {
						keep = append(keep, x.Doc)
					}
				}
			}
			f.Comments = keep
			return f, nil
		}}
	pkgs, err := packages.Load(cfg, ".")
	if err != nil || len(pkgs) != 1 || len(pkgs[0].Errors) > 0 {
		fmt.Fprintln(os.Stderr, "load failed:", err, pkgs)
		os.Exit(1)
	}
	pk := pkgs[0]
	os.MkdirAll(*out, 0o755)
	var extra []ast.Decl
	for _, f := range pk.Syntax {
		name := pk.Fset.Position(f.Pos()).Filename
		if strings.HasSuffix(name, "_test.go") {
			continue
		}
		for _, d := range f.Decls {
			fd, ok := d.(*ast.FuncDecl)
			if !ok || fd.Body == nil {
				continue
			}
			if onlyFn != "" && declName(fd) != onlyFn {
				continue
			}
			switch *kind {
			case "invert":
				invert(fd.Body)
			case "demorgan":
				deMorgan(fd)
			case "guard2else":
				guard2else(fd.Body)
			case "else2guard":
				else2guard(fd.Body)
			case "cond2local":
				cond2local(fd.Body)
			case "mirror":
				mirror(fd)
			case "lenform":
				lenform(fd, pk.TypesInfo)
			case "chain2switch":
				chain2switch(fd.Body)
			case "switch2chain":
				switch2chain(fd.Body)
			case "and2nested":
				and2nested(fd.Body)
			case "ret2var":
				ret2var(fd, pk.TypesInfo)
			case "predicate":
				extra = append(extra, predicate(fd, pk)...)
			case "if2continue":
				if2continue(fd.Body)
			case "libeq":
				libeq(fd, pk.TypesInfo)
			case "rename":
				rename(fd, pk.TypesInfo, pk.Types)
			case "range2index":
				range2index(fd.Body, pk.TypesInfo)
			default:
				fmt.Fprintln(os.Stderr, "unknown kind", *kind)
				os.Exit(2)
			}
		}
		dropUnusedImports(f, pk.TypesInfo)
		var buf bytes.Buffer
		if err := printer.Fprint(&buf, pk.Fset, f); err != nil {
			fmt.Fprintln(os.Stderr, "print:", err)
			os.Exit(1)
		}
		src, err := format.Source(buf.Bytes())
		if err != nil {
			src = buf.Bytes()
		}
		os.WriteFile(filepath.Join(*out, filepath.Base(name)), src, 0o644)
	}
	if len(extra) > 0 {
		f := &ast.File{Name: ast.NewIdent(pk.Name), Decls: extra}
		var buf bytes.Buffer
		buf.WriteString("package " + pk.Name + "\n\n")
		imports := map[string]bool{}
		for _, d := range extra {
			ast.Inspect(d, func(n ast.Node) bool {
				if se, ok := n.(*ast.SelectorExpr); ok {
					if id, ok := se.X.(*ast.Ident); ok && id.Obj == nil {
						if p, ok := importNames[id.Name]; ok {
							imports[p] = true
						}
					}
				}
				return true
			})
		}
		var imps []string
		for p := range imports {
			imps = append(imps, p)
		}
		sort.Strings(imps)
		for _, p := range imps {
			buf.WriteString("import " + p + "\n")
		}
		for _, d := range f.Decls {
			buf.WriteString("\n")
			printer.Fprint(&buf, token.NewFileSet(), d)
			buf.WriteString("\n")
		}
		src, err := format.Source(buf.Bytes())
		if err != nil {
			src = buf.Bytes()
		}
		os.WriteFile(filepath.Join(*out, "zz_eq_predicates.go"), src, 0o644)
	}
	fmt.Printf("%s: %d sites\n", *kind, nSites)
}

func declName(fd *ast.FuncDecl) string {
	if fd.Recv != nil && len(fd.Recv.List) == 1 {
		t := fd.Recv.List[0].Type
		if s, ok := t.(*ast.StarExpr); ok {
			t = s.X
		}
		if id, ok := t.(*ast.Ident); ok {
			return id.Name + "." + fd.Name.Name
		}
	}
	return fd.Name.Name
}

func not(e ast.Expr) ast.Expr {
	if u, ok := e.(*ast.UnaryExpr); ok && u.Op == token.NOT {
		if p, ok := u.X.(*ast.ParenExpr); ok {
			return p.X
		}
		switch u.X.(type) {
		case *ast.Ident, *ast.CallExpr, *ast.SelectorExpr:
			return u.X
		}
	}
	return &ast.UnaryExpr{Op: token.NOT, X: &ast.ParenExpr{X: e}}
}

// eachBlock calls f for every statement list in the body (function literals included).
func eachList(n ast.Node, f func(list *[]ast.Stmt)) {
	ast.Inspect(n, func(n ast.Node) bool {
		switch x := n.(type) {
		case *ast.BlockStmt:
			f(&x.List)
		case *ast.CaseClause:
			f(&x.Body)
		case *ast.CommClause:
			f(&x.Body)
		}
		return true
	})
}

// invert: if c {A} else {B}  ->  if !c {B} else {A}
func invert(body *ast.BlockStmt) {
	ast.Inspect(body, func(n ast.Node) bool {
		if is, ok := n.(*ast.IfStmt); ok {
			if eb, ok := is.Else.(*ast.BlockStmt); ok {
				is.Cond = not(is.Cond)
				is.Body, is.Else = eb, is.Body
				nSites++
			}
		}
		return true
	})
}

// deMorgan: a && b -> !(!a || !b) ; a || b -> !(!a && !b)
func deMorgan(fd *ast.FuncDecl) {
	var rewrite func(e ast.Expr) ast.Expr
	rewrite = func(e ast.Expr) ast.Expr {
		switch x := e.(type) {
		case *ast.ParenExpr:
			x.X = rewrite(x.X)
			return x
		case *ast.UnaryExpr:
			x.X = rewrite(x.X)
			return x
		case *ast.BinaryExpr:
			x.X, x.Y = rewrite(x.X), rewrite(x.Y)
			if x.Op == token.LAND || x.Op == token.LOR {
				op := token.LOR
				if x.Op == token.LOR {
					op = token.LAND
				}
				nSites++
				return &ast.UnaryExpr{Op: token.NOT, X: &ast.ParenExpr{X: &ast.BinaryExpr{X: not(x.X), Op: op, Y: not(x.Y)}}}
			}
			return x
		}
		return e
	}
	ast.Inspect(fd.Body, func(n ast.Node) bool {
		switch x := n.(type) {
		case *ast.IfStmt:
			x.Cond = rewrite(x.Cond)
		case *ast.ForStmt:
			if x.Cond != nil {
				x.Cond = rewrite(x.Cond)
			}
		case *ast.ReturnStmt:
			for i := range x.Results {
				x.Results[i] = rewrite(x.Results[i])
			}
		case *ast.AssignStmt:
			for i := range x.Rhs {
				x.Rhs[i] = rewrite(x.Rhs[i])
			}
		}
		return true
	})
}

func endsInReturn(b *ast.BlockStmt) bool {
	if len(b.List) == 0 {
		return false
	}
	_, ok := b.List[len(b.List)-1].(*ast.ReturnStmt)
	return ok
}

func hasLabel(list []ast.Stmt) bool {
	found := false
	for _, s := range list {
		ast.Inspect(s, func(n ast.Node) bool {
			switch n.(type) {
			case *ast.LabeledStmt:
				found = true
			case *ast.FuncLit:
				return false
			}
			return true
		})
	}
	return found
}

// guard2else: if c { ...; return }; rest...  ->  if c { ...; return } else { rest... }
func guard2else(body *ast.BlockStmt) {
	eachList(body, func(list *[]ast.Stmt) {
		for i := 0; i+1 < len(*list); i++ {
			is, ok := (*list)[i].(*ast.IfStmt)
			if !ok || is.Else != nil || !endsInReturn(is.Body) {
				continue
			}
			rest := append([]ast.Stmt{}, (*list)[i+1:]...)
			if hasLabel(rest) {
				continue
			}
			is.Else = &ast.BlockStmt{List: rest}
			*list = (*list)[:i+1]
			nSites++
			return // the rest is visited as the else block
		}
	})
}

// else2guard: if c { ...; return } else { B... }  ->  if c { ...; return }; B...   (only as the last statement of a list,
// so that names declared in B cannot collide with later statements)
func else2guard(body *ast.BlockStmt) {
	for changed := true; changed; {
		changed = false
		eachList(body, func(list *[]ast.Stmt) {
			n := len(*list)
			if n == 0 {
				return
			}
			is, ok := (*list)[n-1].(*ast.IfStmt)
			if !ok || is.Init != nil {
				return
			}
			eb, ok := is.Else.(*ast.BlockStmt)
			if !ok || !endsInReturn(is.Body) || hasLabel(eb.List) {
				return
			}
			// names declared in the else block must not exist in the enclosing list
			declared := map[string]bool{}
			for _, s := range (*list)[:n-1] {
				declaredNames(s, declared)
			}
			clash := false
			inner := map[string]bool{}
			for _, s := range eb.List {
				declaredNames(s, inner)
			}
			for k := range inner {
				if declared[k] {
					clash = true
				}
			}
			if clash {
				return
			}
			is.Else = nil
			*list = append(*list, eb.List...)
			nSites++
			changed = true
		})
	}
}

func declaredNames(s ast.Stmt, out map[string]bool) {
	switch x := s.(type) {
	case *ast.AssignStmt:
		if x.Tok == token.DEFINE {
			for _, l := range x.Lhs {
				if id, ok := l.(*ast.Ident); ok {
					out[id.Name] = true
				}
			}
		}
	case *ast.DeclStmt:
		if gd, ok := x.Decl.(*ast.GenDecl); ok {
			for _, sp := range gd.Specs {
				switch y := sp.(type) {
				case *ast.ValueSpec:
					for _, id := range y.Names {
						out[id.Name] = true
					}
				case *ast.TypeSpec:
					out[y.Name.Name] = true
				}
			}
		}
	}
}

// cond2local: if c {  ->  zzcN := c; if zzcN {     (not for else-if, not with an init statement)
func cond2local(body *ast.BlockStmt) {
	eachList(body, func(list *[]ast.Stmt) {
		var out []ast.Stmt
		for _, s := range *list {
			if is, ok := s.(*ast.IfStmt); ok && is.Init == nil {
				if _, isIdent := is.Cond.(*ast.Ident); !isIdent {
					counter++
					name := fmt.Sprintf("zzc%d", counter)
					out = append(out, &ast.AssignStmt{Lhs: []ast.Expr{ast.NewIdent(name)}, Tok: token.DEFINE, Rhs: []ast.Expr{is.Cond}})
					is.Cond = ast.NewIdent(name)
					nSites++
				}
			}
			out = append(out, s)
		}
		*list = out
	})
}

func simpleOperand(e ast.Expr) bool {
	switch x := e.(type) {
	case *ast.BasicLit:
		return true
	case *ast.Ident:
		return true
	case *ast.UnaryExpr:
		return x.Op == token.SUB && simpleOperand(x.X)
	}
	return false
}

var mirrorTok = map[token.Token]token.Token{token.EQL: token.EQL, token.NEQ: token.NEQ, token.LSS: token.GTR, token.GTR: token.LSS, token.LEQ: token.GEQ, token.GEQ: token.LEQ}

// mirror: a < b -> b > a   when one side is a literal or an identifier
func mirror(fd *ast.FuncDecl) {
	ast.Inspect(fd.Body, func(n ast.Node) bool {
		if b, ok := n.(*ast.BinaryExpr); ok {
			if m, ok := mirrorTok[b.Op]; ok && (simpleOperand(b.X) || simpleOperand(b.Y)) {
				b.X, b.Y, b.Op = b.Y, b.X, m
				nSites++
			}
		}
		return true
	})
}

// lenform: s == "" -> len(s) == 0 ; s != "" -> len(s) != 0 ; len(s) == 0 -> s == "" (strings) ; len(s) > 0 -> s != ""
func lenform(fd *ast.FuncDecl, info *types.Info) {
	isEmptyLit := func(e ast.Expr) bool {
		l, ok := e.(*ast.BasicLit)
		return ok && l.Kind == token.STRING && (l.Value == `""` || l.Value == "``")
	}
	isZero := func(e ast.Expr) bool {
		l, ok := e.(*ast.BasicLit)
		return ok && l.Kind == token.INT && l.Value == "0"
	}
	done := map[*ast.BinaryExpr]bool{}
	ast.Inspect(fd.Body, func(n ast.Node) bool {
		b, ok := n.(*ast.BinaryExpr)
		if !ok || done[b] {
			return true
		}
		if (b.Op == token.EQL || b.Op == token.NEQ) && isEmptyLit(b.Y) {
			b.X = &ast.CallExpr{Fun: ast.NewIdent("len"), Args: []ast.Expr{b.X}}
			b.Y = &ast.BasicLit{Kind: token.INT, Value: "0"}
			done[b] = true
			nSites++
			return true
		}
		if call, ok := b.X.(*ast.CallExpr); ok && isZero(b.Y) && len(call.Args) == 1 {
			if id, ok := call.Fun.(*ast.Ident); ok && id.Name == "len" {
				if tv, ok := info.Types[call.Args[0]]; ok {
					if bt, ok := tv.Type.Underlying().(*types.Basic); ok && bt.Info()&types.IsString != 0 {
						switch b.Op {
						case token.EQL, token.NEQ:
							b.X, b.Y = call.Args[0], &ast.BasicLit{Kind: token.STRING, Value: `""`}
							done[b] = true
							nSites++
						case token.GTR:
							b.X, b.Y, b.Op = call.Args[0], &ast.BasicLit{Kind: token.STRING, Value: `""`}, token.NEQ
							done[b] = true
							nSites++
						}
					}
				}
			}
		}
		return true
	})
}

// unlabeledBreak: the statements contain a break that would bind to a switch put around them
func unlabeledBreak(list []ast.Stmt) bool {
	found := false
	var visit func(n ast.Node) bool
	visit = func(n ast.Node) bool {
		switch x := n.(type) {
		case *ast.ForStmt, *ast.RangeStmt, *ast.SwitchStmt, *ast.TypeSwitchStmt, *ast.SelectStmt, *ast.FuncLit:
			return false
		case *ast.BranchStmt:
			if x.Tok == token.BREAK && x.Label == nil {
				found = true
			}
		}
		return true
	}
	for _, s := range list {
		ast.Inspect(s, visit)
	}
	return found
}

// chain2switch: if a {A} else if b {B} else {C}  ->  switch { case a: A; case b: B; default: C }   (also a plain if/else)
func chain2switch(body *ast.BlockStmt) {
	eachList(body, func(list *[]ast.Stmt) {
		for i, s := range *list {
			is, ok := s.(*ast.IfStmt)
			if !ok || is.Else == nil {
				continue
			}
			var clauses []ast.Stmt
			okChain := true
			var init ast.Stmt = is.Init
			for cur := is; ; {
				if cur != is && cur.Init != nil {
					okChain = false
					break
				}
				if unlabeledBreak(cur.Body.List) {
					okChain = false
					break
				}
				clauses = append(clauses, &ast.CaseClause{List: []ast.Expr{cur.Cond}, Body: cur.Body.List})
				switch e := cur.Else.(type) {
				case *ast.IfStmt:
					cur = e
					continue
				case *ast.BlockStmt:
					if unlabeledBreak(e.List) {
						okChain = false
					}
					clauses = append(clauses, &ast.CaseClause{Body: e.List})
				}
				break
			}
			if !okChain {
				continue
			}
			(*list)[i] = &ast.SwitchStmt{Init: init, Body: &ast.BlockStmt{List: clauses}}
			nSites++
		}
	})
}

// switch2chain: tagless switch without fallthrough/break  ->  if / else if / else
func switch2chain(body *ast.BlockStmt) {
	eachList(body, func(list *[]ast.Stmt) {
		for i, s := range *list {
			sw, ok := s.(*ast.SwitchStmt)
			if !ok || sw.Tag != nil || len(sw.Body.List) == 0 {
				continue
			}
			okSw := true
			var def *ast.CaseClause
			var cases []*ast.CaseClause
			for k, cs := range sw.Body.List {
				cc := cs.(*ast.CaseClause)
				if unlabeledBreak(cc.Body) {
					okSw = false
				}
				for _, st := range cc.Body {
					if br, ok := st.(*ast.BranchStmt); ok && br.Tok == token.FALLTHROUGH {
						okSw = false
					}
				}
				if cc.List == nil {
					if k != len(sw.Body.List)-1 {
						okSw = false // default in the middle: order of evaluation is still the case order, keep it simple
					}
					def = cc
				} else {
					cases = append(cases, cc)
				}
			}
			if !okSw || len(cases) == 0 {
				continue
			}
			var first, cur *ast.IfStmt
			for _, cc := range cases {
				var cond ast.Expr
				for _, e := range cc.List {
					if cond == nil {
						cond = e
					} else {
						cond = &ast.BinaryExpr{X: cond, Op: token.LOR, Y: e}
					}
				}
				is := &ast.IfStmt{Cond: cond, Body: &ast.BlockStmt{List: cc.Body}}
				if first == nil {
					first = is
					first.Init = sw.Init
				} else {
					cur.Else = is
				}
				cur = is
			}
			if def != nil {
				cur.Else = &ast.BlockStmt{List: def.Body}
			}
			(*list)[i] = first
			nSites++
		}
	})
}

// and2nested: if a && b {A} (no else)  ->  if a { if b {A} }
func and2nested(body *ast.BlockStmt) {
	ast.Inspect(body, func(n ast.Node) bool {
		is, ok := n.(*ast.IfStmt)
		if !ok || is.Else != nil {
			return true
		}
		for {
			b, ok := is.Cond.(*ast.BinaryExpr)
			if !ok || b.Op != token.LAND {
				break
			}
			inner := &ast.IfStmt{Cond: b.Y, Body: is.Body}
			is.Cond = b.X
			is.Body = &ast.BlockStmt{List: []ast.Stmt{inner}}
			nSites++
		}
		return true
	})
}

// ret2var: in a function with exactly one unnamed boolean result: return e -> zzr := e; return zzr
func ret2var(fd *ast.FuncDecl, info *types.Info) {
	if fd.Type.Results == nil || len(fd.Type.Results.List) != 1 || len(fd.Type.Results.List[0].Names) != 0 {
		return
	}
	if id, ok := fd.Type.Results.List[0].Type.(*ast.Ident); !ok || id.Name != "bool" {
		return
	}
	eachList(fd.Body, func(list *[]ast.Stmt) {
		var out []ast.Stmt
		for _, s := range *list {
			if r, ok := s.(*ast.ReturnStmt); ok && len(r.Results) == 1 {
				if _, isIdent := r.Results[0].(*ast.Ident); !isIdent {
					counter++
					name := fmt.Sprintf("zzr%d", counter)
					out = append(out, &ast.AssignStmt{Lhs: []ast.Expr{ast.NewIdent(name)}, Tok: token.DEFINE, Rhs: []ast.Expr{r.Results[0]}})
					r.Results[0] = ast.NewIdent(name)
					nSites++
				}
			}
			out = append(out, s)
		}
		*list = out
	})
	// function literals have their own result lists: undo is not needed, a bool literal result gets the same treatment
	_ = info
}

var importNames = map[string]string{}

// predicate: if <cond> {  ->  if zzpN(free variables...) {   with  func zzpN(...) bool { return <cond> }
// for conditions that contain a call or a comparison, whose free variables are locals/parameters of nameable types.
func predicate(fd *ast.FuncDecl, pk *packages.Package) []ast.Decl {
	info := pk.TypesInfo
	for _, imp := range pk.Types.Imports() {
		importNames[imp.Name()] = fmt.Sprintf("%q", imp.Path())
	}
	qual := func(p *types.Package) string {
		if p == pk.Types {
			return ""
		}
		return p.Name()
	}
	var decls []ast.Decl
	ast.Inspect(fd.Body, func(n ast.Node) bool {
		if _, isLit := n.(*ast.FuncLit); isLit {
			return false
		}
		is, ok := n.(*ast.IfStmt)
		if !ok {
			return true
		}
		switch is.Cond.(type) {
		case *ast.Ident:
			return true
		}
		okCond := true
		free := map[*types.Var]bool{}
		var order []*types.Var
		ast.Inspect(is.Cond, func(m ast.Node) bool {
			switch x := m.(type) {
			case *ast.FuncLit:
				okCond = false
				return false
			case *ast.CallExpr:
				if id, ok := x.Fun.(*ast.Ident); ok && (id.Name == "recover" || id.Name == "panic") {
					okCond = false
				}
			case *ast.Ident:
				v, ok := info.Uses[x].(*types.Var)
				if !ok || v.IsField() || v.Pkg() != pk.Types {
					return true
				}
				if v.Parent() == pk.Types.Scope() {
					return true // package-level variable
				}
				if !free[v] {
					free[v] = true
					order = append(order, v)
				}
			}
			return true
		})
		if !okCond {
			return true
		}
		var params []*ast.Field
		var args []ast.Expr
		for _, v := range order {
			ts := types.TypeString(v.Type(), qual)
			if strings.Contains(ts, "struct{") || strings.Contains(ts, "interface{") && ts != "interface{}" {
				okCond = false
				break
			}
			// locally declared named types cannot be named from package scope
			if nt, ok := derefNamed(v.Type()); ok && nt.Obj().Parent() != nt.Obj().Pkg().Scope() && nt.Obj().Pkg() != nil {
				okCond = false
				break
			}
			te, err := parser.ParseExpr(ts)
			if err != nil {
				okCond = false
				break
			}
			params = append(params, &ast.Field{Names: []*ast.Ident{ast.NewIdent(v.Name())}, Type: te})
			args = append(args, ast.NewIdent(v.Name()))
		}
		if !okCond {
			return true
		}
		counter++
		name := fmt.Sprintf("zzp%d", counter)
		decls = append(decls, &ast.FuncDecl{Name: ast.NewIdent(name),
			Type: &ast.FuncType{Params: &ast.FieldList{List: params}, Results: &ast.FieldList{List: []*ast.Field{{Type: ast.NewIdent("bool")}}}},
			Body: &ast.BlockStmt{List: []ast.Stmt{&ast.ReturnStmt{Results: []ast.Expr{is.Cond}}}}})
		is.Cond = &ast.CallExpr{Fun: ast.NewIdent(name), Args: args}
		nSites++
		return true
	})
	return decls
}

func derefNamed(t types.Type) (*types.Named, bool) {
	for {
		switch x := t.(type) {
		case *types.Pointer:
			t = x.Elem()
			continue
		case *types.Slice:
			t = x.Elem()
			continue
		case *types.Named:
			return x, true
		}
		return nil, false
	}
}

// dropUnusedImports removes the import specs no selector of the (rewritten) file refers to any more.
func dropUnusedImports(f *ast.File, info *types.Info) {
	used := map[string]bool{}
	usedNames := map[string]bool{}
	ast.Inspect(f, func(n ast.Node) bool {
		if se, ok := n.(*ast.SelectorExpr); ok {
			if id, ok := se.X.(*ast.Ident); ok {
				if pn, ok := info.Uses[id].(*types.PkgName); ok {
					used[pn.Imported().Path()] = true
				} else if info.Uses[id] == nil && info.Defs[id] == nil {
					usedNames[id.Name] = true // an identifier this tool made
				}
			}
		}
		return true
	})
	for _, d := range f.Decls {
		gd, ok := d.(*ast.GenDecl)
		if !ok || gd.Tok != token.IMPORT {
			continue
		}
		var keep []ast.Spec
		for _, sp := range gd.Specs {
			is := sp.(*ast.ImportSpec)
			path := strings.Trim(is.Path.Value, "\"")
			base := path
			if k := strings.LastIndex(base, "/"); k >= 0 {
				base = base[k+1:]
			}
			if is.Name != nil {
				base = is.Name.Name
			}
			if used[path] || usedNames[base] || (is.Name != nil && (is.Name.Name == "_" || is.Name.Name == ".")) {
				keep = append(keep, sp)
			}
		}
		gd.Specs = keep
	}
	var decls []ast.Decl
	for _, d := range f.Decls {
		if gd, ok := d.(*ast.GenDecl); ok && gd.Tok == token.IMPORT && len(gd.Specs) == 0 {
			continue
		}
		decls = append(decls, d)
	}
	f.Decls = decls
	f.Imports = nil
}

// rename: every parameter, receiver, named result and local variable of the function gets a neutral name.
func rename(fd *ast.FuncDecl, info *types.Info, pkg *types.Package) {
	names := map[types.Object]string{}
	nameOf := func(o types.Object) string {
		v, ok := o.(*types.Var)
		if !ok || v.IsField() || v.Pkg() != pkg || v.Parent() == pkg.Scope() || v.Name() == "_" {
			return ""
		}
		if n, ok := names[o]; ok {
			return n
		}
		counter++
		names[o] = fmt.Sprintf("zv%d", counter)
		nSites++
		return names[o]
	}
	ast.Inspect(fd, func(n ast.Node) bool {
		id, ok := n.(*ast.Ident)
		if !ok {
			return true
		}
		if o := info.Defs[id]; o != nil {
			if nn := nameOf(o); nn != "" {
				id.Name = nn
			}
			return true
		}
		if o := info.Uses[id]; o != nil {
			// only variables declared inside this function
			if o.Pos() >= fd.Pos() && o.Pos() <= fd.End() {
				if nn := nameOf(o); nn != "" {
					id.Name = nn
				}
			}
		}
		return true
	})
	// type switch symbols: `switch x := v.(type)` declares x implicitly per clause
	ast.Inspect(fd, func(n ast.Node) bool {
		ts, ok := n.(*ast.TypeSwitchStmt)
		if !ok {
			return true
		}
		as, ok := ts.Assign.(*ast.AssignStmt)
		if !ok || len(as.Lhs) != 1 {
			return true
		}
		sym := as.Lhs[0].(*ast.Ident)
		counter++
		nn := fmt.Sprintf("zv%d", counter)
		old := sym.Name
		sym.Name = nn
		for _, cl := range ts.Body.List {
			cc := cl.(*ast.CaseClause)
			if o := info.Implicits[cc]; o != nil {
				for _, st := range cc.Body {
					ast.Inspect(st, func(m ast.Node) bool {
						if id, ok := m.(*ast.Ident); ok && info.Uses[id] == o && id.Name == old {
							id.Name = nn
						}
						return true
					})
				}
			}
		}
		return true
	})
}

// range2index: for i, v := range s {B}  ->  zs := s; for i := 0; i < len(zs); i++ { v := zs[i]; B }   (slices only)
func range2index(body *ast.BlockStmt, info *types.Info) {
	eachList(body, func(list *[]ast.Stmt) {
		var out []ast.Stmt
		for _, st := range *list {
			rs, ok := st.(*ast.RangeStmt)
			if !ok || rs.Tok != token.DEFINE {
				out = append(out, st)
				continue
			}
			tv, ok := info.Types[rs.X]
			if !ok {
				out = append(out, st)
				continue
			}
			if _, isSlice := tv.Type.Underlying().(*types.Slice); !isSlice {
				out = append(out, st)
				continue
			}
			counter++
			zs := ast.NewIdent(fmt.Sprintf("zs%d", counter))
			idx := ast.NewIdent(fmt.Sprintf("zi%d", counter))
			if k, ok := rs.Key.(*ast.Ident); ok && k.Name != "_" {
				idx = ast.NewIdent(k.Name)
			}
			var pre []ast.Stmt
			if v, ok := rs.Value.(*ast.Ident); ok && v.Name != "_" {
				pre = append(pre, &ast.AssignStmt{Lhs: []ast.Expr{ast.NewIdent(v.Name)}, Tok: token.DEFINE, Rhs: []ast.Expr{&ast.IndexExpr{X: ast.NewIdent(zs.Name), Index: ast.NewIdent(idx.Name)}}})
				// the value may be unused in the body only if it was `_`; a used-once guarantee is not needed
			}
			// the key of a range is a copy per iteration: assignments to it in the body do not affect the iteration
			assignsKey := false
			ast.Inspect(rs.Body, func(n ast.Node) bool {
				switch x := n.(type) {
				case *ast.AssignStmt:
					for _, l := range x.Lhs {
						if id, ok := l.(*ast.Ident); ok && id.Name == idx.Name && x.Tok != token.DEFINE {
							assignsKey = true
						}
					}
				case *ast.IncDecStmt:
					if id, ok := x.X.(*ast.Ident); ok && id.Name == idx.Name {
						assignsKey = true
					}
				case *ast.UnaryExpr:
					if id, ok := x.X.(*ast.Ident); ok && x.Op == token.AND && id.Name == idx.Name {
						assignsKey = true
					}
				}
				return true
			})
			if assignsKey {
				out = append(out, st)
				continue
			}
			out = append(out, &ast.AssignStmt{Lhs: []ast.Expr{zs}, Tok: token.DEFINE, Rhs: []ast.Expr{rs.X}})
			out = append(out, &ast.ForStmt{
				Init: &ast.AssignStmt{Lhs: []ast.Expr{ast.NewIdent(idx.Name)}, Tok: token.DEFINE, Rhs: []ast.Expr{&ast.BasicLit{Kind: token.INT, Value: "0"}}},
				Cond: &ast.BinaryExpr{X: ast.NewIdent(idx.Name), Op: token.LSS, Y: &ast.CallExpr{Fun: ast.NewIdent("len"), Args: []ast.Expr{ast.NewIdent(zs.Name)}}},
				Post: &ast.IncDecStmt{X: ast.NewIdent(idx.Name), Tok: token.INC},
				Body: &ast.BlockStmt{List: append(pre, rs.Body.List...)},
			})
			nSites++
		}
		*list = out
	})
}

// if2continue: a loop body that ends in `if c {A}` (no else)  ->  `if !c { continue }; A`
func if2continue(body *ast.BlockStmt) {
	ast.Inspect(body, func(n ast.Node) bool {
		var lb *ast.BlockStmt
		switch x := n.(type) {
		case *ast.ForStmt:
			lb = x.Body
		case *ast.RangeStmt:
			lb = x.Body
		}
		for lb != nil && len(lb.List) > 0 {
			is, ok := lb.List[len(lb.List)-1].(*ast.IfStmt)
			if !ok || is.Else != nil || is.Init != nil || len(is.Body.List) == 0 {
				break
			}
			// names declared in A must not clash with the loop body's own
			declared := map[string]bool{}
			for _, st := range lb.List[:len(lb.List)-1] {
				declaredNames(st, declared)
			}
			inner := map[string]bool{}
			for _, st := range is.Body.List {
				declaredNames(st, inner)
			}
			clash := false
			for k := range inner {
				if declared[k] {
					clash = true
				}
			}
			if clash {
				break
			}
			guard := &ast.IfStmt{Cond: not(is.Cond), Body: &ast.BlockStmt{List: []ast.Stmt{&ast.BranchStmt{Tok: token.CONTINUE}}}}
			lb.List = append(append(lb.List[:len(lb.List)-1:len(lb.List)-1], guard), is.Body.List...)
			nSites++
		}
		return true
	})
}

// libeq: strings.Contains(a, b) -> strings.Index(a, b) >= 0 ; strings.Index(a, b) ==/!= -1, > -1, >= 0, < 0 -> [!]strings.Contains(a, b)
func libeq(fd *ast.FuncDecl, info *types.Info) {
	isStringsCall := func(e ast.Expr, name string) (*ast.CallExpr, bool) {
		call, ok := e.(*ast.CallExpr)
		if !ok {
			return nil, false
		}
		se, ok := call.Fun.(*ast.SelectorExpr)
		if !ok || se.Sel.Name != name {
			return nil, false
		}
		id, ok := se.X.(*ast.Ident)
		if !ok {
			return nil, false
		}
		pn, ok := info.Uses[id].(*types.PkgName)
		return call, ok && pn.Imported().Path() == "strings"
	}
	intLit := func(e ast.Expr) (int, bool) {
		neg := false
		if u, ok := e.(*ast.UnaryExpr); ok && u.Op == token.SUB {
			neg, e = true, u.X
		}
		l, ok := e.(*ast.BasicLit)
		if !ok || l.Kind != token.INT || (l.Value != "0" && l.Value != "1") {
			return 0, false
		}
		v := 0
		if l.Value == "1" {
			v = 1
		}
		if neg {
			v = -v
		}
		return v, true
	}
	var rewrite func(e ast.Expr) ast.Expr
	rewrite = func(e ast.Expr) ast.Expr {
		switch x := e.(type) {
		case *ast.ParenExpr:
			x.X = rewrite(x.X)
		case *ast.UnaryExpr:
			x.X = rewrite(x.X)
		case *ast.BinaryExpr:
			if call, ok := isStringsCall(x.X, "Index"); ok {
				if k, ok := intLit(x.Y); ok {
					contains := &ast.CallExpr{Fun: &ast.SelectorExpr{X: ast.NewIdent("strings"), Sel: ast.NewIdent("Contains")}, Args: call.Args}
					switch {
					case (x.Op == token.NEQ && k == -1) || (x.Op == token.GTR && k == -1) || (x.Op == token.GEQ && k == 0):
						nSites++
						return contains
					case (x.Op == token.EQL && k == -1) || (x.Op == token.LSS && k == 0):
						nSites++
						return &ast.UnaryExpr{Op: token.NOT, X: contains}
					}
				}
			}
			x.X, x.Y = rewrite(x.X), rewrite(x.Y)
		case *ast.CallExpr:
			if call, ok := isStringsCall(x, "Contains"); ok {
				nSites++
				return &ast.ParenExpr{X: &ast.BinaryExpr{X: &ast.CallExpr{Fun: &ast.SelectorExpr{X: ast.NewIdent("strings"), Sel: ast.NewIdent("Index")}, Args: call.Args}, Op: token.GEQ, Y: &ast.BasicLit{Kind: token.INT, Value: "0"}}}
			}
		}
		return e
	}
	ast.Inspect(fd.Body, func(n ast.Node) bool {
		switch x := n.(type) {
		case *ast.IfStmt:
			x.Cond = rewrite(x.Cond)
		case *ast.ForStmt:
			if x.Cond != nil {
				x.Cond = rewrite(x.Cond)
			}
		case *ast.ReturnStmt:
			for i := range x.Results {
				x.Results[i] = rewrite(x.Results[i])
			}
		case *ast.AssignStmt:
			for i := range x.Rhs {
				x.Rhs[i] = rewrite(x.Rhs[i])
			}
		}
		return true
	})
}
